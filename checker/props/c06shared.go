package props

// Shared matchers for the SDP-generation properties C06, C07, C09 and C12
// (generateMatchedSDP, generateUnmatchedSDP, populateSDP, addTransceiverSDP,
// addDataMediaSection, addSenderSDP). Everything is resolved through the type
// checker; nothing is keyed by line or by the spelling of a local.

import (
	"fmt"
	"go/ast"
	"go/constant"
	"go/token"
	"go/types"
	"os"
	"sort"
	"strings"
	"time"

	"golang.org/x/tools/go/cfg"

	"verif/checker/core"
)

const c06SDPPkg = "github.com/pion/sdp/v3"

// ---------------------------------------------------------------------------
// anchors

type c06Env struct {
	c    *Ctx
	rule string // rule id anchor failures are charged to
	ok   bool

	msType                     *types.Named // mediaSection
	fID, fData, fTransceivers  *types.Var
	trType                     *types.Named // RTPTransceiver
	dirType                    *types.Named // RTPTransceiverDirection
	getMidValue, midFn, setMid *core.FuncInfo
	genMatched, genUnmatched   *core.FuncInfo
	populate, addTr, addData   *core.FuncInfo
	createOffer, createAnswer  *core.FuncInfo

	secHelpers map[*types.Func]c06SecHelperInfo // memo of c06SectionHelper
}

// c06Anchors resolves the anchors shared by the four properties. Failures are recorded under rule.
func c06Anchors(c *Ctx, rule string) *c06Env {
	e := &c06Env{c: c, rule: rule}
	e.msType = c.P.Named("", "mediaSection")
	e.trType = c.P.Named("", "RTPTransceiver")
	e.dirType = c.P.Named("", "RTPTransceiverDirection")
	if e.msType == nil || e.trType == nil || e.dirType == nil {
		c.R.Fail(rule, "anchor:/mediaSection|RTPTransceiver|RTPTransceiverDirection", "-", "anchored type no longer resolves (fails closed)")
		return e
	}
	e.fID = c.mustField(rule, "", "mediaSection", "id")
	e.fData = c.mustField(rule, "", "mediaSection", "data")
	e.fTransceivers = c.mustField(rule, "", "mediaSection", "transceivers")
	e.getMidValue = c.mustFunc(rule, "", "getMidValue")
	e.midFn = c.mustFunc(rule, "", "RTPTransceiver.Mid")
	e.setMid = c.mustFunc(rule, "", "RTPTransceiver.SetMid")
	e.genMatched = c.mustFunc(rule, "", "PeerConnection.generateMatchedSDP")
	e.genUnmatched = c.mustFunc(rule, "", "PeerConnection.generateUnmatchedSDP")
	e.populate = c.mustFunc(rule, "", "populateSDP")
	e.addTr = c.mustFunc(rule, "", "addTransceiverSDP")
	e.addData = c.mustFunc(rule, "", "addDataMediaSection")
	e.createOffer = c.mustFunc(rule, "", "PeerConnection.CreateOffer")
	e.createAnswer = c.mustFunc(rule, "", "PeerConnection.CreateAnswer")
	e.ok = e.fID != nil && e.fData != nil && e.fTransceivers != nil && e.getMidValue != nil && e.midFn != nil && e.setMid != nil &&
		e.genMatched != nil && e.genUnmatched != nil && e.populate != nil && e.addTr != nil && e.addData != nil && e.createOffer != nil && e.createAnswer != nil
	return e
}

// ---------------------------------------------------------------------------
// small AST helpers

func c06ConstString(info *types.Info, e ast.Expr) (string, bool) {
	if tv, ok := info.Types[e]; ok && tv.Value != nil && tv.Value.Kind() == constant.String {
		return constant.StringVal(tv.Value), true
	}
	return "", false
}

func c06ConstInt(info *types.Info, e ast.Expr) (int64, bool) {
	if tv, ok := info.Types[e]; ok && tv.Value != nil && tv.Value.Kind() == constant.Int {
		n, ok := constant.Int64Val(tv.Value)
		return n, ok
	}
	return 0, false
}

func c06ConstBool(info *types.Info, e ast.Expr) (bool, bool) {
	if tv, ok := info.Types[e]; ok && tv.Value != nil && tv.Value.Kind() == constant.Bool {
		return constant.BoolVal(tv.Value), true
	}
	return false, false
}

// c06IsBuiltin reports whether call is a call of the named builtin.
func c06IsBuiltin(info *types.Info, call *ast.CallExpr, name string) bool {
	id, ok := ast.Unparen(call.Fun).(*ast.Ident)
	if !ok {
		return false
	}
	b, ok := info.Uses[id].(*types.Builtin)
	return ok && b.Name() == name
}

// c06ExtMethod reports whether call is a method call named `name` whose receiver's named type is
// declared in package pkgPath with type name typeName ("" matches any type of the package).
func c06ExtMethod(info *types.Info, call *ast.CallExpr, pkgPath, typeName, name string) bool {
	fn := core.Callee(info, call)
	if fn == nil || (name != "" && fn.Name() != name) || fn.Pkg() == nil || fn.Pkg().Path() != pkgPath {
		return false
	}
	sig, _ := fn.Type().(*types.Signature)
	if sig == nil || sig.Recv() == nil {
		return false
	}
	t := sig.Recv().Type()
	if p, ok := t.(*types.Pointer); ok {
		t = p.Elem()
	}
	n, ok := t.(*types.Named)
	return ok && (typeName == "" || n.Obj().Name() == typeName)
}

// c06ExtFunc reports whether call is a call of package-level function pkgPath.name.
func c06ExtFunc(info *types.Info, call *ast.CallExpr, pkgPath, name string) bool {
	fn := core.Callee(info, call)
	if fn == nil || fn.Name() != name || fn.Pkg() == nil || fn.Pkg().Path() != pkgPath {
		return false
	}
	sig, _ := fn.Type().(*types.Signature)
	return sig != nil && sig.Recv() == nil
}

// c06Recv returns the receiver expression of a method call (nil otherwise).
func c06Recv(info *types.Info, call *ast.CallExpr) ast.Expr {
	sel, ok := ast.Unparen(call.Fun).(*ast.SelectorExpr)
	if !ok {
		return nil
	}
	if s := info.Selections[sel]; s != nil && s.Kind() == types.MethodVal {
		return sel.X
	}
	return nil
}

// c06ChainRoot strips method calls, selectors, index expressions, & and * down to the root expression.
func c06ChainRoot(info *types.Info, e ast.Expr) ast.Expr {
	for {
		e = ast.Unparen(e)
		switch x := e.(type) {
		case *ast.CallExpr:
			if r := c06Recv(info, x); r != nil {
				e = r
				continue
			}
			return e
		case *ast.SelectorExpr:
			if s := info.Selections[x]; s != nil {
				e = x.X
				continue
			}
			return e
		case *ast.IndexExpr:
			e = x.X
		case *ast.StarExpr:
			e = x.X
		case *ast.UnaryExpr:
			if x.Op == token.AND {
				e = x.X
				continue
			}
			return e
		default:
			return e
		}
	}
}

// c06IsNamed reports whether t (or *t) is the named type n.
func c06IsNamed(t types.Type, n *types.Named) bool {
	if t == nil || n == nil {
		return false
	}
	if p, ok := t.(*types.Pointer); ok {
		t = p.Elem()
	}
	return types.Identical(t, n)
}

// c06IsExtNamed reports whether t (or *t, or []t / []*t when slice is set) is pkgPath.name.
func c06IsExtNamed(t types.Type, pkgPath, name string) bool {
	if t == nil {
		return false
	}
	if p, ok := t.(*types.Pointer); ok {
		t = p.Elem()
	}
	n, ok := t.(*types.Named)
	return ok && n.Obj().Pkg() != nil && n.Obj().Pkg().Path() == pkgPath && n.Obj().Name() == name
}

// c06FieldPath renders a pure field chain rooted at an identifier as ("root var", "f.g"); ok=false otherwise.
func c06FieldPath(info *types.Info, e ast.Expr) (root *types.Var, path string, ok bool) {
	e = ast.Unparen(e)
	switch x := e.(type) {
	case *ast.Ident:
		v := core.VarOf(info, x)
		return v, "", v != nil
	case *ast.SelectorExpr:
		if s := info.Selections[x]; s != nil && s.Kind() == types.FieldVal {
			r, p, ok := c06FieldPath(info, x.X)
			if !ok {
				return nil, "", false
			}
			if p != "" {
				p += "."
			}
			return r, p + x.Sel.Name, true
		}
	case *ast.StarExpr:
		return c06FieldPath(info, x.X)
	}
	return nil, "", false
}

// ---------------------------------------------------------------------------
// reaching definitions with right-hand sides

type c06Def struct {
	Node  int
	Kind  string   // assign | tuple | range-key | range-value | zero | incdec | opassign | param | captured
	Rhs   ast.Expr // assign: the RHS; tuple: the single RHS call; range-*: the range operand
	Index int      // tuple: position of the variable among the LHS
	Range *ast.RangeStmt
}

// c06DefAt returns the definition node n gives to v (ok=false when n does not define v).
func c06DefAt(g *core.Graph, n *core.Node, v *types.Var) (c06Def, bool) {
	info := g.Info
	if n.Ast == nil {
		return c06Def{}, false
	}
	// go/cfg places the operand, key and value expressions of a range statement as plain
	// expression nodes in the block before the loop
	if e, ok := n.Ast.(ast.Expr); ok {
		if rs := c06RangeKV(g)[e]; rs != nil {
			if core.VarOf(info, e) == v {
				d := c06Def{Node: n.ID, Kind: "range-value", Range: rs, Rhs: rs.X}
				if rs.Key == e {
					d.Kind = "range-key"
				}
				return d, true
			}
			return c06Def{}, false
		}
	}
	var out c06Def
	found := false
	core.InspectShallow(n.Ast, func(x ast.Node) bool {
		switch s := x.(type) {
		case *ast.AssignStmt:
			for i, l := range s.Lhs {
				if core.VarOf(info, l) != v {
					continue
				}
				found = true
				switch {
				case s.Tok != token.ASSIGN && s.Tok != token.DEFINE:
					out = c06Def{Node: n.ID, Kind: "opassign", Rhs: s.Rhs[0]}
				case len(s.Rhs) == len(s.Lhs):
					out = c06Def{Node: n.ID, Kind: "assign", Rhs: s.Rhs[i]}
				default:
					out = c06Def{Node: n.ID, Kind: "tuple", Rhs: s.Rhs[0], Index: i}
				}
			}
		case *ast.IncDecStmt:
			if core.VarOf(info, s.X) == v {
				found = true
				out = c06Def{Node: n.ID, Kind: "incdec"}
			}
		case *ast.ValueSpec:
			for i, nm := range s.Names {
				if info.Defs[nm] != types.Object(v) {
					continue
				}
				found = true
				switch {
				case len(s.Values) == 0:
					out = c06Def{Node: n.ID, Kind: "zero"}
				case len(s.Values) == len(s.Names):
					out = c06Def{Node: n.ID, Kind: "assign", Rhs: s.Values[i]}
				default:
					out = c06Def{Node: n.ID, Kind: "tuple", Rhs: s.Values[0], Index: i}
				}
			}
		}
		return true
	})
	return out, found
}

// c06Defs returns the definitions of v that reach node `at` (the node's own definition excluded).
// A path from the entry without a definition yields a "param" entry (parameter or zero value).
func c06Defs(g *core.Graph, at int, v *types.Var) []c06Def {
	var out []c06Def
	seen := map[int]bool{}
	entry := false
	var walk func(n int)
	walk = func(n int) {
		if n == g.Entry {
			entry = true
		}
		for _, p := range g.Nodes[n].Preds {
			if seen[p] {
				continue
			}
			seen[p] = true
			if d, ok := c06DefAt(g, g.Nodes[p], v); ok {
				out = append(out, d)
				continue
			}
			walk(p)
		}
	}
	walk(at)
	if entry {
		out = append(out, c06Def{Node: -1, Kind: "param"})
	}
	if c06WrittenInLiterals(g, v) {
		out = append(out, c06Def{Node: -1, Kind: "captured"})
	}
	sort.SliceStable(out, func(i, j int) bool { return out[i].Node < out[j].Node })
	return out
}

// c06WrittenInLiterals reports whether a function literal inside g's body assigns v or takes its address.
func c06WrittenInLiterals(g *core.Graph, v *types.Var) bool {
	hit := false
	ast.Inspect(g.Body, func(n ast.Node) bool {
		fl, ok := n.(*ast.FuncLit)
		if !ok || ast.Node(fl) == g.Fn {
			return true
		}
		ast.Inspect(fl.Body, func(x ast.Node) bool {
			switch s := x.(type) {
			case *ast.AssignStmt:
				for _, l := range s.Lhs {
					if core.VarOf(g.Info, l) == v {
						hit = true
					}
				}
			case *ast.IncDecStmt:
				if core.VarOf(g.Info, s.X) == v {
					hit = true
				}
			case *ast.UnaryExpr:
				if s.Op == token.AND && core.VarOf(g.Info, s.X) == v {
					hit = true
				}
			}
			return true
		})
		return false
	})
	return hit
}

// c06IsParam returns the index of v among the parameters of g's function (-1 if it is not one).
func c06IsParam(g *core.Graph, v *types.Var) int {
	sig := g.Sig()
	if sig == nil {
		return -1
	}
	for i := 0; i < sig.Params().Len(); i++ {
		if sig.Params().At(i) == v {
			return i
		}
	}
	return -1
}

// c06AssignedAnywhere counts the assignments to v in g's body (function literals included; the declaration counts).
func c06AssignedAnywhere(g *core.Graph, v *types.Var) int {
	n := 0
	ast.Inspect(g.Body, func(x ast.Node) bool {
		switch s := x.(type) {
		case *ast.AssignStmt:
			for _, l := range s.Lhs {
				if core.VarOf(g.Info, l) == v {
					n++
				}
			}
		case *ast.IncDecStmt:
			if core.VarOf(g.Info, s.X) == v {
				n++
			}
		case *ast.ValueSpec:
			for _, nm := range s.Names {
				if g.Info.Defs[nm] == types.Object(v) {
					n++
				}
			}
		case *ast.RangeStmt:
			if (s.Key != nil && core.VarOf(g.Info, s.Key) == v) || (s.Value != nil && core.VarOf(g.Info, s.Value) == v) {
				n++
			}
		case *ast.UnaryExpr:
			if s.Op == token.AND && core.VarOf(g.Info, s.X) == v {
				n += 2 // address taken: treat as multiply assigned
			}
		}
		return true
	})
	return n
}

// ---------------------------------------------------------------------------
// canonical rendering of expressions for construct keys (locals are replaced by what defines them)

func c06Canon(g *core.Graph, at int, e ast.Expr) string {
	return c06CanonDepth(g, at, e, 3)
}

func c06CanonDepth(g *core.Graph, at int, e ast.Expr, depth int) string {
	info := g.Info
	e = ast.Unparen(e)
	if tv, ok := info.Types[e]; ok && tv.Value != nil {
		if n, ok := tv.Type.(*types.Named); ok {
			// named constant: use the declared name when the expression is one
			if id, ok := e.(*ast.Ident); ok {
				if k, ok := info.Uses[id].(*types.Const); ok {
					return k.Name()
				}
			}
			if se, ok := e.(*ast.SelectorExpr); ok {
				if k, ok := info.Uses[se.Sel].(*types.Const); ok {
					return k.Name()
				}
			}
			return n.Obj().Name() + "(" + tv.Value.ExactString() + ")"
		}
		return tv.Value.ExactString()
	}
	switch x := e.(type) {
	case *ast.Ident:
		if core.IsNilIdent(info, x) {
			return "nil"
		}
		v := core.VarOf(info, x)
		if v == nil {
			return x.Name
		}
		if v.Pkg() != nil && v.Parent() == v.Pkg().Scope() {
			return v.Name() // package-level variable: a declared name
		}
		if i := c06IsParam(g, v); i >= 0 && c06AssignedAnywhere(g, v) == 0 {
			return sprintf("param#%d", i)
		}
		if sig := g.Sig(); sig != nil && sig.Recv() == v {
			return "recv"
		}
		// a local is rendered by the callee(s) that define it when every reaching definition is a
		// call, otherwise by its type (never by its spelling)
		generic := depth <= 0
		set := map[string]bool{}
		if !generic {
			for _, d := range c06Defs(g, at, v) {
				call, isCall := ast.Unparen(d.Rhs).(*ast.CallExpr)
				var fn *types.Func
				if isCall && d.Rhs != nil {
					fn = core.Callee(info, call)
				}
				switch {
				case d.Kind == "assign" && fn != nil:
					set[core.FuncName(fn)+"(…)"] = true
				case d.Kind == "tuple" && fn != nil:
					set[sprintf("%s(…)#%d", core.FuncName(fn), d.Index)] = true
				default:
					generic = true
				}
			}
		}
		if generic || len(set) == 0 {
			return "<" + types.TypeString(v.Type(), c06Qual) + ">"
		}
		return "<" + joinSorted(set) + ">"
	case *ast.SelectorExpr:
		if s := info.Selections[x]; s != nil {
			return c06CanonDepth(g, at, x.X, depth) + "." + x.Sel.Name
		}
		return x.Sel.Name // qualified identifier
	case *ast.CallExpr:
		if tv, ok := info.Types[x.Fun]; ok && tv.IsType() && len(x.Args) == 1 {
			return types.TypeString(tv.Type, c06Qual) + "(" + c06CanonDepth(g, at, x.Args[0], depth) + ")"
		}
		var args []string
		for _, a := range x.Args {
			args = append(args, c06CanonDepth(g, at, a, depth-1))
		}
		name := ""
		if id, ok := ast.Unparen(x.Fun).(*ast.Ident); ok {
			if b, ok := info.Uses[id].(*types.Builtin); ok {
				name = b.Name()
			}
		}
		if name == "" {
			if fn := core.Callee(info, x); fn != nil {
				name = core.FuncName(fn)
				if fn.Pkg() != nil && fn.Pkg().Path() != core.ModPath {
					name = fn.Pkg().Name() + "." + name
				}
				if r := c06Recv(info, x); r != nil {
					name = c06CanonDepth(g, at, r, depth-1) + "." + fn.Name()
				}
			} else {
				name = "dyn(" + c06CanonDepth(g, at, x.Fun, depth-1) + ")"
			}
		}
		return name + "(" + strings.Join(args, ",") + ")"
	case *ast.BinaryExpr:
		side := func(e ast.Expr) string {
			s := c06CanonDepth(g, at, e, depth)
			if be, ok := ast.Unparen(e).(*ast.BinaryExpr); ok && be.Op.Precedence() != x.Op.Precedence() && (be.Op == token.LAND || be.Op == token.LOR) {
				return "(" + s + ")"
			}
			return s
		}
		return side(x.X) + x.Op.String() + side(x.Y)
	case *ast.UnaryExpr:
		if _, isBin := ast.Unparen(x.X).(*ast.BinaryExpr); isBin {
			return x.Op.String() + "(" + c06CanonDepth(g, at, x.X, depth) + ")"
		}
		return x.Op.String() + c06CanonDepth(g, at, x.X, depth)
	case *ast.StarExpr:
		return "*" + c06CanonDepth(g, at, x.X, depth)
	case *ast.IndexExpr:
		return c06CanonDepth(g, at, x.X, depth) + "[" + c06CanonDepth(g, at, x.Index, depth) + "]"
	case *ast.CompositeLit:
		return types.TypeString(info.TypeOf(x), c06Qual) + "{…}"
	case *ast.FuncLit:
		return "func-literal"
	}
	return "<" + types.TypeString(info.TypeOf(e), c06Qual) + ">"
}

func c06Qual(p *types.Package) string {
	if p.Path() == core.ModPath {
		return ""
	}
	return p.Name()
}

// ---------------------------------------------------------------------------
// range loops

type c06Loop struct {
	G         *core.Graph
	Range     *ast.RangeStmt
	Head      int          // node carrying the iterate/done edges
	BodyEntry int          // first node of an iteration
	Done      int          // first node after the loop
	Body      map[int]bool // nodes of the loop (they can come back to Head), Head excluded
	ValueVar  *types.Var
	KeyVar    *types.Var
	headBlock int // first node of the loop-header block (back edges arrive here)
}

func c06RangeLoops(g *core.Graph) []*c06Loop {
	var out []*c06Loop
	live := g.Live()
	for _, n := range g.Nodes {
		if !live[n.ID] || len(n.Succs) != 2 || n.Succs[0].Range == nil {
			continue
		}
		l := &c06Loop{G: g, Range: n.Succs[0].Range, Head: n.ID, BodyEntry: n.Succs[0].To, Done: n.Succs[1].To, Body: map[int]bool{}}
		if l.Range.Value != nil {
			l.ValueVar = core.VarOf(g.Info, l.Range.Value)
		}
		if l.Range.Key != nil {
			l.KeyVar = core.VarOf(g.Info, l.Range.Key)
		}
		// the loop-header block holds a synthetic head and the Key/Value identifier nodes before Head
		// (consecutive ids); an iteration re-enters at the block's first node
		blockHead := n.ID
		for blockHead-1 >= 0 && g.Nodes[blockHead-1].Block == n.Block {
			blockHead--
		}
		inHeader := func(x int) bool { return x >= blockHead && x <= n.ID }
		// the body: nodes reachable from the first node of an iteration that lie syntactically inside the
		// loop body (so that break / return paths belong to the iteration that takes them)
		rs := l.Range
		inside := func(x int) bool {
			nd := g.Nodes[x]
			if nd.Ast != nil {
				return nd.Ast.Pos() >= rs.Body.Pos() && nd.Ast.Pos() < rs.Body.End()
			}
			if nd.Block == nil {
				return false // Exit / Panic
			}
			if nd.Block.Stmt == ast.Stmt(rs) {
				return nd.Block.Kind == cfg.KindRangeBody
			}
			if len(nd.Block.Nodes) > 0 {
				p := nd.Block.Nodes[0].Pos()
				return p >= rs.Body.Pos() && p < rs.Body.End()
			}
			if nd.Block.Stmt != nil {
				p := nd.Block.Stmt.Pos()
				return p >= rs.Body.Pos() && p < rs.Body.End()
			}
			return false
		}
		fwd := g.Reach([]int{l.BodyEntry}, func(x int) bool { return inHeader(x) || !inside(x) }, nil)
		for x := range fwd {
			if !inHeader(x) && inside(x) {
				l.Body[x] = true
			}
		}
		l.headBlock = blockHead
		out = append(out, l)
	}
	sort.Slice(out, func(i, j int) bool { return out[i].Range.Pos() < out[j].Range.Pos() })
	return out
}

// c06LoopBack lists the nodes of the body from which the next iteration starts (back edges), sorted.
func (l *c06Loop) backNodes() []int {
	var out []int
	for _, p := range l.G.Nodes[l.headBlock].Preds {
		if l.Body[p] {
			out = append(out, p)
		}
	}
	sort.Ints(out)
	return out
}

// exits lists the edges that leave the loop body other than through the back edge.
func (l *c06Loop) exits() []core.EdgeRef {
	var out []core.EdgeRef
	var ids []int
	for n := range l.Body {
		ids = append(ids, n)
	}
	sort.Ints(ids)
	for _, n := range ids {
		for i, e := range l.G.Nodes[n].Succs {
			if e.To != l.headBlock && !l.Body[e.To] {
				out = append(out, core.EdgeRef{From: n, Idx: i})
			}
		}
	}
	return out
}

// ---------------------------------------------------------------------------
// path counting: minimum / maximum number of matching nodes over all paths between two points

type c06Span struct{ Min, Max int }

const c06Sat = 3 // counts saturate here ("many")

func (s c06Span) String() string {
	f := func(n int) string {
		if n >= c06Sat {
			return "many"
		}
		return sprintf("%d", n)
	}
	if s.Min == s.Max {
		return f(s.Min)
	}
	return f(s.Min) + ".." + f(s.Max)
}

func (s c06Span) add(w c06Span) c06Span {
	r := c06Span{s.Min + w.Min, s.Max + w.Max}
	if r.Min > c06Sat {
		r.Min = c06Sat
	}
	if r.Max > c06Sat {
		r.Max = c06Sat
	}
	return r
}

// c06PathCount computes, over all paths from start to target inside the graph, the span of the
// summed weights of the nodes passed (start included, target excluded). Paths may not pass a
// node for which stop is true (start excepted) nor follow an edge for which avoid is true.
// ok=false when target is not reachable that way.
func c06PathCount(g *core.Graph, start, target int, stop func(int) bool, avoid func(from, idx int, e core.Edge) bool, w func(int) c06Span) (c06Span, bool) {
	val := map[int]c06Span{start: {0, 0}}
	var tv c06Span
	tok := false
	merge := func(cur c06Span, seen bool, in c06Span) (c06Span, bool) {
		if !seen {
			return in, true
		}
		nv := c06Span{min(cur.Min, in.Min), max(cur.Max, in.Max)}
		return nv, nv != cur
	}
	work := []int{start}
	inWork := map[int]bool{start: true}
	for len(work) > 0 {
		n := work[0]
		work = work[1:]
		inWork[n] = false
		out := val[n].add(w(n))
		for i, e := range g.Nodes[n].Succs {
			if avoid != nil && avoid(n, i, e) {
				continue
			}
			if e.To == target {
				tv, _ = merge(tv, tok, out)
				tok = true
				continue
			}
			if stop != nil && stop(e.To) {
				continue
			}
			cur, seen := val[e.To]
			nv, changed := merge(cur, seen, out)
			if changed {
				val[e.To] = nv
				if !inWork[e.To] {
					work = append(work, e.To)
					inWork[e.To] = true
				}
			}
		}
	}
	return tv, tok
}

// ---------------------------------------------------------------------------
// edge facts (what taking an edge implies)

type c06Fact struct {
	Expr  ast.Expr // atomic boolean expression (no &&, ||, !)
	Truth bool
}

func c06CondFacts(cond ast.Expr, truth bool, out *[]c06Fact) {
	cond = ast.Unparen(cond)
	switch c := cond.(type) {
	case *ast.UnaryExpr:
		if c.Op == token.NOT {
			c06CondFacts(c.X, !truth, out)
			return
		}
	case *ast.BinaryExpr:
		switch c.Op {
		case token.LAND:
			if truth {
				c06CondFacts(c.X, true, out)
				c06CondFacts(c.Y, true, out)
			}
			return
		case token.LOR:
			if !truth {
				c06CondFacts(c.X, false, out)
				c06CondFacts(c.Y, false, out)
			}
			return
		}
	}
	*out = append(*out, c06Fact{Expr: cond, Truth: truth})
}

// c06EdgeFacts lists the atomic facts implied by taking edge e.
func c06EdgeFacts(e core.Edge) []c06Fact {
	if e.Cond == nil || e.Branch == 0 {
		return nil
	}
	var out []c06Fact
	if e.Tag != nil {
		if e.Branch == 1 {
			out = append(out, c06Fact{Expr: &ast.BinaryExpr{X: e.Tag, Op: token.EQL, Y: e.Cond}, Truth: true})
		} else {
			out = append(out, c06Fact{Expr: &ast.BinaryExpr{X: e.Tag, Op: token.EQL, Y: e.Cond}, Truth: false})
		}
		return out
	}
	c06CondFacts(e.Cond, e.Branch == 1, &out)
	return out
}

// c06EdgesWhere returns the edges of g that imply a fact accepted by pred.
func c06EdgesWhere(g *core.Graph, pred func(from int, f c06Fact) bool) map[core.EdgeRef]bool {
	out := map[core.EdgeRef]bool{}
	for _, n := range g.Nodes {
		for i, e := range n.Succs {
			for _, f := range c06EdgeFacts(e) {
				if pred(n.ID, f) {
					out[core.EdgeRef{From: n.ID, Idx: i}] = true
				}
			}
		}
	}
	return out
}

// c06BoolVarFact matches the fact "v is true" (truth) for a boolean variable v.
func c06BoolVarFact(info *types.Info, f c06Fact, v *types.Var, truth bool) bool {
	if id, ok := ast.Unparen(f.Expr).(*ast.Ident); ok && core.VarOf(info, id) == v {
		return f.Truth == truth
	}
	if be, ok := ast.Unparen(f.Expr).(*ast.BinaryExpr); ok && (be.Op == token.EQL || be.Op == token.NEQ) {
		x, y := be.X, be.Y
		if _, isC := c06ConstBool(info, x); isC {
			x, y = y, x
		}
		if b, isC := c06ConstBool(info, y); isC && core.VarOf(info, x) == v {
			eq := (be.Op == token.EQL) == f.Truth // fact says x == b (eq) or x != b
			return (b == truth) == eq
		}
	}
	return false
}

// ---------------------------------------------------------------------------
// finite valuations of loop-invariant variables (prunes edges that no declared value can take)

type c06Atom struct {
	Key    string
	Domain []constant.Value
	Names  []string
}

type c06Valuation map[string]constant.Value

type c06Finite struct {
	g      *core.Graph
	p      *core.Program
	scope  map[int]bool // nodes in which the atoms must be invariant
	atoms  map[string]*c06Atom
	keys   map[ast.Expr]c06KeyT                 // memo of atomKey
	ints   map[string]map[string]constant.Value // integer atoms: the constants they are compared (==, !=) with
	intT   map[string]types.Type
	poison map[string]bool
	alias  map[*ast.Ident]ast.Expr // memo of boolAlias
}

type c06KeyT struct {
	k string
	t types.Type
}

// atomKey canonicalises an operand: a parameter/receiver field chain, a local defined exactly
// once by such a chain, or a local that is never assigned inside the scope. "" = not an atom.
func (f *c06Finite) atomKey(e ast.Expr) (string, types.Type) {
	e = ast.Unparen(e)
	if kt, ok := f.keys[e]; ok {
		return kt.k, kt.t
	}
	k, t := f.atomKeySlow(e)
	f.keys[e] = c06KeyT{k, t}
	return k, t
}

func (f *c06Finite) atomKeySlow(e ast.Expr) (string, types.Type) {
	info := f.g.Info
	if id, ok := e.(*ast.Ident); ok {
		v := core.VarOf(info, id)
		if v == nil || (v.Pkg() != nil && v.Parent() == v.Pkg().Scope()) {
			return "", nil
		}
		if i := c06IsParam(f.g, v); i >= 0 && c06AssignedAnywhere(f.g, v) == 0 {
			return sprintf("param#%d", i), v.Type()
		}
		if c06WrittenInLiterals(f.g, v) {
			return "", nil
		}
		// alias of a field chain: exactly one assignment in the whole function, RHS a pure chain
		var defs []c06Def
		n := 0
		for _, nd := range f.g.Nodes {
			if d, ok := c06DefAt(f.g, nd, v); ok {
				defs = append(defs, d)
				n++
			}
		}
		if n == 1 && defs[0].Kind == "assign" {
			if root, path, ok := c06FieldPath(info, defs[0].Rhs); ok && path != "" && f.rootStable(root) && !f.fieldWritten(defs[0].Rhs) {
				return f.rootName(root) + "." + path, v.Type()
			}
		}
		// invariant inside the scope
		for _, d := range defs {
			if f.scope[d.Node] {
				return "", nil
			}
		}
		return sprintf("var:%s@%d", v.Name(), v.Pos()), v.Type()
	}
	if root, path, ok := c06FieldPath(info, e); ok && path != "" && f.rootStable(root) && !f.fieldWritten(e) {
		return f.rootName(root) + "." + path, info.TypeOf(e)
	}
	return "", nil
}

func (f *c06Finite) rootStable(v *types.Var) bool {
	if v == nil {
		return false
	}
	sig := f.g.Sig()
	isParam := c06IsParam(f.g, v) >= 0 || (sig != nil && sig.Recv() == v)
	return isParam && c06AssignedAnywhere(f.g, v) == 0
}

func (f *c06Finite) rootName(v *types.Var) string {
	if sig := f.g.Sig(); sig != nil && sig.Recv() == v {
		return "recv"
	}
	return sprintf("param#%d", c06IsParam(f.g, v))
}

// fieldWritten reports whether the last field of the chain is assigned anywhere in the function.
func (f *c06Finite) fieldWritten(e ast.Expr) bool {
	fv := core.FieldOf(f.g.Info, e)
	if fv == nil {
		return true
	}
	hit := false
	ast.Inspect(f.g.Body, func(x ast.Node) bool {
		switch s := x.(type) {
		case *ast.AssignStmt:
			for _, l := range s.Lhs {
				if core.FieldOf(f.g.Info, l) == fv {
					hit = true
				}
			}
		case *ast.IncDecStmt:
			if core.FieldOf(f.g.Info, s.X) == fv {
				hit = true
			}
		case *ast.UnaryExpr:
			if s.Op == token.AND && core.FieldOf(f.g.Info, s.X) == fv {
				hit = true
			}
		}
		return true
	})
	return hit
}

func (f *c06Finite) domainOf(t types.Type) ([]constant.Value, []string) {
	if b, ok := t.Underlying().(*types.Basic); ok && b.Info()&types.IsBoolean != 0 {
		return []constant.Value{constant.MakeBool(false), constant.MakeBool(true)}, []string{"false", "true"}
	}
	n, ok := t.(*types.Named)
	if !ok || n.Obj().Pkg() == nil {
		return nil, nil
	}
	if b, ok := n.Underlying().(*types.Basic); !ok || b.Info()&types.IsInteger == 0 {
		return nil, nil
	}
	var vals []constant.Value
	var names []string
	sc := n.Obj().Pkg().Scope()
	var ks []*types.Const
	for _, nm := range sc.Names() {
		if k, ok := sc.Lookup(nm).(*types.Const); ok && types.Identical(k.Type(), n) {
			ks = append(ks, k)
		}
	}
	sort.Slice(ks, func(i, j int) bool { return ks[i].Pos() < ks[j].Pos() })
	for _, k := range ks {
		vals = append(vals, k.Val())
		names = append(names, k.Name())
	}
	return vals, names
}

// collect registers the atoms of a condition.
func (f *c06Finite) collect(e ast.Expr) {
	e = ast.Unparen(e)
	switch x := e.(type) {
	case *ast.UnaryExpr:
		if x.Op == token.NOT {
			f.collect(x.X)
		}
		return
	case *ast.BinaryExpr:
		switch x.Op {
		case token.LAND, token.LOR:
			f.collect(x.X)
			f.collect(x.Y)
			return
		case token.EQL, token.NEQ:
			a, b := x.X, x.Y
			if tv, ok := f.g.Info.Types[a]; ok && tv.Value != nil {
				a, b = b, a
			}
			if tv, ok := f.g.Info.Types[b]; ok && tv.Value != nil {
				f.addAtom(a)
				// plain integers that are only tested with == / != against constants: the constants plus one other value
				if k, t := f.atomKey(a); k != "" && tv.Value.Kind() == constant.Int {
					if _, isNamed := t.(*types.Named); !isNamed {
						if bt, ok := t.Underlying().(*types.Basic); ok && bt.Info()&types.IsInteger != 0 {
							if f.ints[k] == nil {
								f.ints[k] = map[string]constant.Value{}
							}
							f.ints[k][tv.Value.ExactString()] = tv.Value
							f.intT[k] = t
						}
					}
				}
			}
			return
		case token.LSS, token.LEQ, token.GTR, token.GEQ:
			// an ordered comparison makes the ==/!= partition of an integer atom inexact: poison it
			for _, side := range []ast.Expr{x.X, x.Y} {
				if k, _ := f.atomKey(side); k != "" {
					f.poison[k] = true
				}
			}
			return
		}
		return
	}
	if rhs := f.boolAlias(e); rhs != nil {
		f.collect(rhs)
		return
	}
	f.addAtom(e)
}

// boolAlias: e is a boolean local with exactly one definition in the function, whose right-hand side
// is a call-free boolean expression (a precomputed condition). Returns that expression.
func (f *c06Finite) boolAlias(e ast.Expr) ast.Expr {
	id, ok := ast.Unparen(e).(*ast.Ident)
	if !ok {
		return nil
	}
	if rhs, memo := f.alias[id]; memo {
		return rhs
	}
	f.alias[id] = nil
	v := core.VarOf(f.g.Info, id)
	if v == nil || c06IsParam(f.g, v) >= 0 || c06WrittenInLiterals(f.g, v) {
		return nil
	}
	if b, ok := v.Type().Underlying().(*types.Basic); !ok || b.Info()&types.IsBoolean == 0 {
		return nil
	}
	var defs []c06Def
	for _, nd := range f.g.Nodes {
		if d, ok := c06DefAt(f.g, nd, v); ok {
			defs = append(defs, d)
		}
	}
	if len(defs) != 1 || defs[0].Kind != "assign" {
		return nil
	}
	pure := true
	ast.Inspect(defs[0].Rhs, func(x ast.Node) bool {
		switch x.(type) {
		case *ast.CallExpr, *ast.FuncLit, *ast.UnaryExpr:
			if u, ok := x.(*ast.UnaryExpr); ok && u.Op == token.NOT {
				return true
			}
			pure = false
		}
		return true
	})
	// operands must be parameter/receiver field chains or constants: locals could change between the
	// definition and the use
	sig := f.g.Sig()
	ast.Inspect(defs[0].Rhs, func(x ast.Node) bool {
		if oid, ok := x.(*ast.Ident); ok {
			if ov, ok := f.g.Info.Uses[oid].(*types.Var); ok && !ov.IsField() {
				isRoot := c06IsParam(f.g, ov) >= 0 || (sig != nil && sig.Recv() == ov)
				if !isRoot || c06AssignedAnywhere(f.g, ov) != 0 {
					pure = false
				}
			}
		}
		return true
	})
	if _, isBin := ast.Unparen(defs[0].Rhs).(*ast.BinaryExpr); !pure || !isBin {
		return nil
	}
	f.alias[id] = defs[0].Rhs
	return defs[0].Rhs
}

// finishInts turns the collected integer atoms into finite domains.
func (f *c06Finite) finishInts() {
	for k, cs := range f.ints {
		if f.poison[k] || f.atoms[k] != nil {
			continue
		}
		var vals []constant.Value
		var names []string
		var keys []string
		for s := range cs {
			keys = append(keys, s)
		}
		sort.Strings(keys)
		var maxV constant.Value = constant.MakeInt64(0)
		for _, s := range keys {
			vals = append(vals, cs[s])
			names = append(names, s)
			if constant.Compare(cs[s], token.GTR, maxV) {
				maxV = cs[s]
			}
		}
		other := constant.BinaryOp(maxV, token.ADD, constant.MakeInt64(1))
		vals = append(vals, other)
		names = append(names, "other("+other.ExactString()+")")
		f.atoms[k] = &c06Atom{Key: k, Domain: vals, Names: names}
	}
}

func (f *c06Finite) addAtom(e ast.Expr) {
	k, t := f.atomKey(e)
	if k == "" || f.atoms[k] != nil {
		return
	}
	dom, names := f.domainOf(t)
	if len(dom) == 0 {
		return
	}
	f.atoms[k] = &c06Atom{Key: k, Domain: dom, Names: names}
}

// eval evaluates a condition under a valuation: 1 true, 0 false, -1 unknown.
func (f *c06Finite) eval(e ast.Expr, val c06Valuation) int {
	e = ast.Unparen(e)
	if b, ok := c06ConstBool(f.g.Info, e); ok {
		if b {
			return 1
		}
		return 0
	}
	switch x := e.(type) {
	case *ast.UnaryExpr:
		if x.Op == token.NOT {
			switch f.eval(x.X, val) {
			case 1:
				return 0
			case 0:
				return 1
			}
		}
		return -1
	case *ast.BinaryExpr:
		switch x.Op {
		case token.LAND:
			a, b := f.eval(x.X, val), f.eval(x.Y, val)
			if a == 0 || b == 0 {
				return 0
			}
			if a == 1 && b == 1 {
				return 1
			}
			return -1
		case token.LOR:
			a, b := f.eval(x.X, val), f.eval(x.Y, val)
			if a == 1 || b == 1 {
				return 1
			}
			if a == 0 && b == 0 {
				return 0
			}
			return -1
		case token.EQL, token.NEQ:
			a, b := x.X, x.Y
			if tv, ok := f.g.Info.Types[a]; ok && tv.Value != nil {
				a, b = b, a
			}
			tv, ok := f.g.Info.Types[b]
			if !ok || tv.Value == nil {
				return -1
			}
			k, _ := f.atomKey(a)
			v, has := val[k]
			if k == "" || !has || v.Kind() != tv.Value.Kind() {
				return -1
			}
			eq := constant.Compare(v, token.EQL, tv.Value)
			if eq == (x.Op == token.EQL) {
				return 1
			}
			return 0
		}
		return -1
	}
	if rhs := f.boolAlias(e); rhs != nil {
		return f.eval(rhs, val)
	}
	k, _ := f.atomKey(e)
	if v, ok := val[k]; ok && k != "" && v.Kind() == constant.Bool {
		if constant.BoolVal(v) {
			return 1
		}
		return 0
	}
	return -1
}

// c06NewFinite collects the finite-domain atoms used by the branch conditions of the scope nodes.
func c06NewFinite(p *core.Program, g *core.Graph, scope map[int]bool) *c06Finite {
	f := &c06Finite{g: g, p: p, scope: scope, atoms: map[string]*c06Atom{}, keys: map[ast.Expr]c06KeyT{}, ints: map[string]map[string]constant.Value{}, intT: map[string]types.Type{}, poison: map[string]bool{}, alias: map[*ast.Ident]ast.Expr{}}
	defer f.finishInts()
	for n := range scope {
		for _, e := range g.Nodes[n].Succs {
			if e.Cond == nil || e.Branch == 0 {
				continue
			}
			if e.Tag != nil {
				if _, ok := g.Info.Types[e.Cond]; ok && g.Info.Types[e.Cond].Value != nil {
					f.addAtom(e.Tag)
				}
				continue
			}
			f.collect(e.Cond)
		}
	}
	return f
}

// valuations enumerates the product of the atoms' domains (sorted by key for determinism).
func (f *c06Finite) valuations() ([]c06Valuation, []string) {
	var keys []string
	for k := range f.atoms {
		keys = append(keys, k)
	}
	sort.Strings(keys)
	vals := []c06Valuation{{}}
	descs := []string{""}
	for _, k := range keys {
		a := f.atoms[k]
		var nv []c06Valuation
		var nd []string
		for i, v := range vals {
			for j, d := range a.Domain {
				m := c06Valuation{}
				for kk, vv := range v {
					m[kk] = vv
				}
				m[k] = d
				nv = append(nv, m)
				s := descs[i]
				if s != "" {
					s += ","
				}
				short := k
				if i := strings.Index(short, "@"); i >= 0 {
					short = short[:i]
				}
				nd = append(nd, s+short+"="+a.Names[j])
			}
		}
		vals, descs = nv, nd
		if len(vals) > 4096 {
			break
		}
	}
	return vals, descs
}

// infeasible reports whether the edge cannot be taken under the valuation.
func (f *c06Finite) infeasible(e core.Edge, val c06Valuation) bool {
	if e.Cond == nil || e.Branch == 0 {
		return false
	}
	var t int
	if e.Tag != nil {
		t = f.eval(&ast.BinaryExpr{X: e.Tag, Op: token.EQL, Y: e.Cond}, val)
	} else {
		t = f.eval(e.Cond, val)
	}
	return (t == 1 && e.Branch == 2) || (t == 0 && e.Branch == 1)
}

// ---------------------------------------------------------------------------
// mediaSection literals and tail appends

type c06Section struct {
	Fi     *core.FuncInfo
	G      *core.Graph
	Node   int // graph node holding the literal / the helper call (-1 when it lies inside a function literal)
	Lit    *ast.CompositeLit
	Expr   ast.Expr // the expression as written in Fi: the literal, or the helper call
	Fields map[string]ast.Expr
	// set when the section is the appended element of `L = append(L, <section>)`
	AppendTo *types.Var
	// Helper is set when the section is written `newSection(args)`: a same-package function whose only
	// return statement returns the literal. Fields that are plain helper parameters are replaced by the
	// caller's arguments; the others stay expressions of the helper (inHelper) and are read through the
	// methods below, which map helper parameters back to the caller.
	Helper   *c06SecHelper
	inHelper map[string]bool
	// HelperBody marks the literal inside such a helper (judged at its call sites, not in place)
	HelperBody bool
}

type c06SecHelper struct {
	fi   *core.FuncInfo
	g    *core.Graph
	call *ast.CallExpr
	ret  int
}

// arg returns the caller's argument bound to the helper's (never reassigned) parameter v.
func (h *c06SecHelper) arg(v *types.Var) ast.Expr {
	if v == nil || c06AssignedAnywhere(h.g, v) != 0 {
		return nil
	}
	i := c06IsParam(h.g, v)
	sig := h.g.Sig()
	if i < 0 || i >= len(h.call.Args) || h.call.Ellipsis.IsValid() || sig == nil || (sig.Variadic() && i == sig.Params().Len()-1) {
		return nil
	}
	return h.call.Args[i]
}

// callerVar maps a variable met while reading a helper-context field to the caller's variable.
func (s *c06Section) callerVar(v *types.Var) *types.Var {
	if s.Helper == nil || v == nil {
		return v
	}
	if a := s.Helper.arg(v); a != nil {
		return core.VarOf(s.G.Info, a)
	}
	return nil
}

// pos is where the section is written in the function that uses it.
func (s *c06Section) pos() token.Pos {
	if s.Helper != nil {
		return s.Helper.call.Pos()
	}
	return s.Lit.Pos()
}

func (s *c06Section) fieldNames() string {
	var ks []string
	for k := range s.Fields {
		ks = append(ks, k)
	}
	sort.Strings(ks)
	return strings.Join(ks, ",")
}

// isData reports whether the section sets data to the constant true.
func (s *c06Section) isData() bool {
	e, ok := s.Fields["data"]
	if !ok {
		return false
	}
	b, isC := c06ConstBool(s.G.Info, e)
	return isC && b
}

// idSrc classifies the provenance of the section's id in the function that uses the section.
func (s *c06Section) idSrc(env *c06Env) (c06Src, bool) {
	e, has := s.Fields["id"]
	if !has {
		return c06Src{}, false
	}
	if s.Helper == nil || !s.inHelper["id"] {
		return c06MidSource(env, s.G, s.Node, e), true
	}
	h := s.Helper
	src := c06MidSource(env, h.g, h.ret, e)
	if src.Class == "param" {
		if a := h.arg(src.Var); a != nil {
			return c06MidSource(env, s.G, s.Node, a), true
		}
		return c06Src{Class: "other", Desc: src.Desc + " of " + h.fi.Name()}, true
	}
	if src.Var != nil {
		src.Var = s.callerVar(src.Var)
	}
	return src, true
}

// soleTransceiver returns the variable v when the section's transceivers field is `[]*RTPTransceiver{v}`.
func (s *c06Section) soleTransceiver() *types.Var {
	e, has := s.Fields["transceivers"]
	if !has {
		return nil
	}
	cl, isLit := ast.Unparen(e).(*ast.CompositeLit)
	if !isLit || len(cl.Elts) != 1 {
		return nil
	}
	v := core.VarOf(s.G.Info, cl.Elts[0])
	if s.Helper != nil && s.inHelper["transceivers"] {
		return s.callerVar(v)
	}
	return v
}

// c06SectionHelper recognises a same-package function that builds a mediaSection: one result of that
// type and a single return statement returning a composite literal. It returns the literal and the return node.
func c06SectionHelper(env *c06Env, fn *types.Func) (*core.FuncInfo, *ast.CompositeLit, int) {
	if fn == nil {
		return nil, nil, -1
	}
	if c, ok := env.secHelpers[fn]; ok {
		return c.fi, c.lit, c.ret
	}
	if env.secHelpers == nil {
		env.secHelpers = map[*types.Func]c06SecHelperInfo{}
	}
	env.secHelpers[fn] = c06SecHelperInfo{ret: -1}
	fi := env.c.P.DeclOf(fn)
	if fi == nil || fi.Decl.Body == nil {
		return nil, nil, -1
	}
	sig, _ := fn.Type().(*types.Signature)
	if sig == nil || sig.Results().Len() != 1 || !types.Identical(sig.Results().At(0).Type(), env.msType) {
		return nil, nil, -1
	}
	g := env.c.P.GraphOf(fi)
	rets := g.Returns()
	if len(rets) != 1 {
		return nil, nil, -1
	}
	ret, _ := g.Nodes[rets[0]].Ast.(*ast.ReturnStmt)
	if ret == nil || len(ret.Results) != 1 {
		return nil, nil, -1
	}
	cl, ok := ast.Unparen(ret.Results[0]).(*ast.CompositeLit)
	if !ok || !c06IsNamed(g.Info.TypeOf(cl), env.msType) {
		return nil, nil, -1
	}
	env.secHelpers[fn] = c06SecHelperInfo{fi: fi, lit: cl, ret: rets[0]}
	return fi, cl, rets[0]
}

type c06SecHelperInfo struct {
	fi  *core.FuncInfo
	lit *ast.CompositeLit
	ret int
}

// c06TailAppend recognises `L = append(L, elems...)` (one variable on each side, no ellipsis) in node n.
func c06TailAppend(info *types.Info, a ast.Node) (l *types.Var, elems []ast.Expr, ok bool) {
	as, isAs := a.(*ast.AssignStmt)
	if !isAs || len(as.Lhs) != 1 || len(as.Rhs) != 1 || as.Tok != token.ASSIGN {
		return nil, nil, false
	}
	call, isCall := ast.Unparen(as.Rhs[0]).(*ast.CallExpr)
	if !isCall || !c06IsBuiltin(info, call, "append") || call.Ellipsis.IsValid() || len(call.Args) < 2 {
		return nil, nil, false
	}
	lv := core.VarOf(info, as.Lhs[0])
	if lv == nil || core.VarOf(info, call.Args[0]) != lv {
		return nil, nil, false
	}
	return lv, call.Args[1:], true
}

// c06LitFields maps field names to the value expressions of a mediaSection literal.
func c06LitFields(env *c06Env, cl *ast.CompositeLit) map[string]ast.Expr {
	out := map[string]ast.Expr{}
	st, _ := env.msType.Underlying().(*types.Struct)
	for i, el := range cl.Elts {
		if kv, ok := el.(*ast.KeyValueExpr); ok {
			if id, ok := kv.Key.(*ast.Ident); ok {
				out[id.Name] = kv.Value
			}
		} else if st != nil && i < st.NumFields() {
			out[st.Field(i).Name()] = el
		}
	}
	return out
}

// c06Sections lists the media sections a function builds: mediaSection composite literals, and calls of a
// same-package helper that returns such a literal.
func c06Sections(env *c06Env, fi *core.FuncInfo) []*c06Section {
	g := env.c.P.GraphOf(fi)
	if g == nil {
		return nil
	}
	info := g.Info
	var out []*c06Section
	isSectionExpr := func(x ast.Node) (ast.Expr, bool) {
		switch e := x.(type) {
		case *ast.CompositeLit:
			if c06IsNamed(info.TypeOf(e), env.msType) {
				return e, true
			}
		case *ast.CallExpr:
			if hfi, _, _ := c06SectionHelper(env, core.Callee(info, e)); hfi != nil {
				return e, true
			}
		}
		return nil, false
	}
	nodeOf := map[ast.Expr]int{}
	appendOf := map[ast.Expr]*types.Var{}
	for _, n := range g.Nodes {
		if n.Ast == nil {
			continue
		}
		core.InspectShallow(n.Ast, func(x ast.Node) bool {
			if e, ok := isSectionExpr(x); ok {
				nodeOf[e] = n.ID
			}
			return true
		})
		if l, elems, ok := c06TailAppend(info, n.Ast); ok {
			for _, el := range elems {
				if e, ok := isSectionExpr(ast.Unparen(el)); ok {
					appendOf[e] = l
				}
			}
		}
	}
	_, ownLit, _ := c06SectionHelper(env, fi.Obj)
	ast.Inspect(fi.Decl.Body, func(x ast.Node) bool {
		e, ok := isSectionExpr(x)
		if !ok {
			return true
		}
		s := &c06Section{Fi: fi, G: g, Node: -1, Expr: e, AppendTo: appendOf[e], inHelper: map[string]bool{}}
		if n, ok := nodeOf[e]; ok {
			s.Node = n
		}
		switch v := e.(type) {
		case *ast.CompositeLit:
			s.Lit = v
			s.Fields = c06LitFields(env, v)
			s.HelperBody = ownLit != nil && v == ownLit
		case *ast.CallExpr:
			hfi, lit, ret := c06SectionHelper(env, core.Callee(info, v))
			h := &c06SecHelper{fi: hfi, g: env.c.P.GraphOf(hfi), call: v, ret: ret}
			s.Helper, s.Lit = h, lit
			s.Fields = map[string]ast.Expr{}
			for name, fe := range c06LitFields(env, lit) {
				if a := h.arg(core.VarOf(info, fe)); a != nil {
					s.Fields[name] = a // a plain parameter: read the caller's argument
				} else {
					s.Fields[name] = fe
					if _, isConst := info.Types[fe]; !isConst || info.Types[fe].Value == nil {
						s.inHelper[name] = true
					}
				}
			}
		}
		out = append(out, s)
		return true
	})
	return out
}

// ---------------------------------------------------------------------------
// provenance of a mid expression

type c06Src struct {
	Class string // remote-mid | transceiver-mid | const | fresh-mid | param | section-id | other
	Desc  string // canonical rendering (for keys and diagnostics)
	Const string
	Var   *types.Var // remote-mid: argument variable of getMidValue; transceiver-mid: receiver variable; param: the parameter
	Param int
}

// c06MidSource classifies where expression e (evaluated at node `at` of g) takes its value from.
func c06MidSource(env *c06Env, g *core.Graph, at int, e ast.Expr) c06Src {
	return c06MidSourceDepth(env, g, at, e, 4)
}

func c06MidSourceDepth(env *c06Env, g *core.Graph, at int, e ast.Expr, depth int) c06Src {
	info := g.Info
	e = ast.Unparen(e)
	other := func() c06Src { return c06Src{Class: "other", Desc: c06Canon(g, at, e)} }
	if s, ok := c06ConstString(info, e); ok {
		return c06Src{Class: "const", Desc: sprintf("%q", s), Const: s}
	}
	switch x := e.(type) {
	case *ast.CallExpr:
		switch {
		case core.IsCallTo(info, x, env.getMidValue.Obj) && len(x.Args) == 1:
			return c06Src{Class: "remote-mid", Desc: "getMidValue(remote media)", Var: core.VarOf(info, x.Args[0])}
		case core.IsCallTo(info, x, env.midFn.Obj):
			return c06Src{Class: "transceiver-mid", Desc: "(*RTPTransceiver).Mid()", Var: core.VarOf(info, c06Recv(info, x))}
		case c06ExtFunc(info, x, "strconv", "Itoa") && len(x.Args) == 1:
			if fv := core.FieldOf(info, x.Args[0]); fv != nil && fv == env.c.P.Field("", "PeerConnection", "greaterMid") {
				return c06Src{Class: "fresh-mid", Desc: "strconv.Itoa(pc.greaterMid)"}
			}
		}
		return other()
	case *ast.SelectorExpr:
		if core.FieldOf(info, x) == env.fID {
			return c06Src{Class: "section-id", Desc: "mediaSection.id", Var: core.VarOf(info, x.X)}
		}
		return other()
	case *ast.Ident:
		v := core.VarOf(info, x)
		if v == nil || depth <= 0 {
			return other()
		}
		defs := c06Defs(g, at, v)
		var res *c06Src
		for _, d := range defs {
			var s c06Src
			switch d.Kind {
			case "assign":
				s = c06MidSourceDepth(env, g, d.Node, d.Rhs, depth-1)
			case "param":
				if i := c06IsParam(g, v); i >= 0 {
					s = c06Src{Class: "param", Desc: sprintf("param#%d", i), Var: v, Param: i}
				} else {
					return other()
				}
			default:
				return other()
			}
			if res == nil {
				res = &s
			} else if res.Class != s.Class || res.Var != s.Var || res.Const != s.Const {
				return other()
			}
		}
		if res == nil {
			return other()
		}
		return *res
	}
	return other()
}

// c06Dump prints every obligation when VERIF_DUMP is set (development aid).
func c06Dump(c *Ctx) {
	c06Tick(c, "end")
	if os.Getenv("VERIF_DUMP") == "" {
		return
	}
	for _, o := range c.R.Obs {
		fmt.Fprintf(os.Stderr, "  %-10s %-9s %s @ %s :: %s\n", o.Rule, o.Status, o.Key, o.Pos, o.Detail)
	}
}

// c06Mentions reports whether the body of fi contains a node accepted by pred (cheap pre-filter before building graphs).
func c06Mentions(fi *core.FuncInfo, pred func(ast.Node) bool) bool {
	hit := false
	ast.Inspect(fi.Decl.Body, func(x ast.Node) bool {
		if hit || x == nil {
			return false
		}
		if pred(x) {
			hit = true
		}
		return !hit
	})
	return hit
}

// c06Tick prints the elapsed time since the start of the run when VERIF_DEBUG is set.
func c06Tick(c *Ctx, what string) {
	if os.Getenv("VERIF_DEBUG") != "" {
		fmt.Fprintf(os.Stderr, "%s %s at %.1fs\n", c.R.Prop, what, time.Since(c.R.Start).Seconds())
	}
}

var c06RangeKVCache = map[*core.Graph]map[ast.Expr]*ast.RangeStmt{}

// c06RangeKV maps the key/value expressions of the range statements of g to their statement.
func c06RangeKV(g *core.Graph) map[ast.Expr]*ast.RangeStmt {
	if m, ok := c06RangeKVCache[g]; ok {
		return m
	}
	m := map[ast.Expr]*ast.RangeStmt{}
	ast.Inspect(g.Body, func(x ast.Node) bool {
		if fl, ok := x.(*ast.FuncLit); ok && ast.Node(fl) != g.Fn {
			return false
		}
		if rs, ok := x.(*ast.RangeStmt); ok {
			if rs.Key != nil {
				m[rs.Key] = rs
			}
			if rs.Value != nil {
				m[rs.Value] = rs
			}
		}
		return true
	})
	c06RangeKVCache[g] = m
	return m
}

// c06Agree386 (thorough tier) re-runs a property's rules on the GOARCH=386 load (which also type-checks
// the files selected by that configuration) and requires the same verdict for every construct.
func c06Agree386(c *Ctx, rule string, run func(*Ctx)) {
	if !c.Thorough || c.Load386 == nil {
		return
	}
	p386, err := c.Load386()
	if err != nil {
		c.R.Fail(rule, "config:linux/386|load", "-", "cannot load the 386 configuration: "+err.Error())
		return
	}
	r2 := core.NewReport(c.R.Prop, "quick", c.R.Seed, os.TempDir())
	c2 := &Ctx{P: p386, R: r2}
	run(c2)
	verdict := func(obs []core.Ob) map[string]core.Status {
		m := map[string]core.Status{}
		for _, o := range obs {
			if o.Status == core.StInfo {
				continue
			}
			k := o.Rule + " | " + o.Key
			if prev, ok := m[k]; ok && prev != core.StOK {
				continue
			}
			m[k] = o.Status
		}
		return m
	}
	a, b := verdict(c.R.Obs), verdict(r2.Obs)
	var diff []string
	for k, st := range a {
		if b[k] != st {
			diff = append(diff, sprintf("%s: amd64 %s / 386 %s", k, st, b[k]))
		}
	}
	for k, st := range b {
		if _, ok := a[k]; !ok {
			diff = append(diff, sprintf("%s: only on 386 (%s)", k, st))
		}
	}
	sort.Strings(diff)
	c.R.Cells += len(b)
	if len(diff) > 6 {
		diff = append(diff[:6], sprintf("… %d more", len(diff)-6))
	}
	c.R.Check(len(diff) == 0, rule, "config:linux/386|same-verdicts", "-", sprintf("%d constructs judged identically on linux/386", len(b)), "the rules give different verdicts on the 386 configuration: "+strings.Join(diff, "; "))
}

// ---------------------------------------------------------------------------
// strings built from constants and values: a + b concatenations and fmt.Sprintf with plain verbs,
// with constant folding through named constants (`sdp.AttrKeyMsid + ":"` is the constant "msid:")

type c06Part struct {
	IsConst bool
	Const   string
	Expr    ast.Expr // the non-constant operand
}

// c06StringParts normalises a string-building expression into alternating constant / value parts
// (adjacent constants merged). ok=false when the expression is not of a recognised shape.
func c06StringParts(info *types.Info, e ast.Expr) ([]c06Part, bool) {
	var raw []c06Part
	var walk func(e ast.Expr) bool
	walk = func(e ast.Expr) bool {
		e = ast.Unparen(e)
		if s, ok := c06ConstString(info, e); ok {
			raw = append(raw, c06Part{IsConst: true, Const: s})
			return true
		}
		if be, ok := e.(*ast.BinaryExpr); ok && be.Op == token.ADD {
			return walk(be.X) && walk(be.Y)
		}
		if call, ok := e.(*ast.CallExpr); ok && c06ExtFunc(info, call, "fmt", "Sprintf") && len(call.Args) >= 1 && !call.Ellipsis.IsValid() {
			format, isC := c06ConstString(info, call.Args[0])
			if !isC {
				return false
			}
			args := call.Args[1:]
			ai := 0
			for i := 0; i < len(format); i++ {
				if format[i] != '%' {
					j := i
					for j < len(format) && format[j] != '%' {
						j++
					}
					raw = append(raw, c06Part{IsConst: true, Const: format[i:j]})
					i = j - 1
					continue
				}
				if i+1 >= len(format) {
					return false
				}
				switch format[i+1] {
				case '%':
					raw = append(raw, c06Part{IsConst: true, Const: "%"})
				case 's', 'd', 'v':
					if ai >= len(args) {
						return false
					}
					a := args[ai]
					ai++
					if s, ok := c06ConstString(info, a); ok {
						raw = append(raw, c06Part{IsConst: true, Const: s})
					} else if tv, ok := info.Types[a]; ok && tv.Value != nil {
						raw = append(raw, c06Part{IsConst: true, Const: tv.Value.ExactString()})
					} else {
						raw = append(raw, c06Part{Expr: a})
					}
				default:
					return false // width / flags / other verbs: not normalised
				}
				i++
			}
			return ai == len(args)
		}
		raw = append(raw, c06Part{Expr: e})
		return true
	}
	if !walk(e) {
		return nil, false
	}
	var out []c06Part
	for _, p := range raw {
		if p.IsConst && p.Const == "" {
			continue
		}
		if p.IsConst && len(out) > 0 && out[len(out)-1].IsConst {
			out[len(out)-1].Const += p.Const
			continue
		}
		out = append(out, p)
	}
	return out, true
}

// ---------------------------------------------------------------------------
// counting an effect through same-module callees

// c06Effect describes a counted effect: direct(info, node) is the number of occurrences in one AST node
// (not descending into function literals).
type c06Effect struct {
	p       *core.Program
	direct  func(info *types.Info, a ast.Node) int
	spans   map[*types.Func]*c06Span // nil entry: in progress (recursion)
	has     map[*types.Func]int      // 0 unknown, 1 no, 2 yes
	maxDeep int
}

func c06NewEffect(p *core.Program, direct func(info *types.Info, a ast.Node) int) *c06Effect {
	return &c06Effect{p: p, direct: direct, spans: map[*types.Func]*c06Span{}, has: map[*types.Func]int{}, maxDeep: 4}
}

// contains reports (AST only, memoised, depth-bounded) whether fn's body or a same-module callee performs the effect.
func (ef *c06Effect) contains(fn *types.Func, depth int) bool {
	if fn == nil {
		return false
	}
	switch ef.has[fn] {
	case 1:
		return false
	case 2:
		return true
	}
	fi := ef.p.DeclOf(fn)
	if fi == nil || fi.Decl.Body == nil || depth > ef.maxDeep {
		return false
	}
	ef.has[fn] = 1 // provisional (breaks recursion)
	info := fi.Pkg.TypesInfo
	found := false
	ast.Inspect(fi.Decl.Body, func(x ast.Node) bool {
		if found || x == nil {
			return false
		}
		if _, isLit := x.(*ast.FuncLit); isLit {
			return false
		}
		switch s := x.(type) {
		case ast.Stmt:
			// direct effects are statements or expressions; test leaf statements only
			switch s.(type) {
			case *ast.IncDecStmt, *ast.AssignStmt, *ast.ExprStmt:
				if ef.direct(info, s) > 0 {
					found = true
				}
			}
		case *ast.CallExpr:
			if cal := core.Callee(info, s); cal != nil && ef.contains(cal, depth+1) {
				found = true
			}
		}
		return !found
	})
	if found {
		ef.has[fn] = 2
	}
	return found
}

// span returns the min/max number of occurrences over all paths entry -> exit of fn (callees included).
func (ef *c06Effect) span(fn *types.Func, depth int) c06Span {
	if sp, ok := ef.spans[fn]; ok {
		if sp == nil {
			return c06Span{} // recursion: counted at the outer level
		}
		return *sp
	}
	fi := ef.p.DeclOf(fn)
	if fi == nil || fi.Decl.Body == nil || !ef.contains(fn, depth) {
		z := c06Span{}
		ef.spans[fn] = &z
		return z
	}
	ef.spans[fn] = nil
	g := ef.p.GraphOf(fi)
	sp, ok := c06PathCount(g, g.Entry, g.Exit, nil, nil, ef.weight(g, depth))
	if !ok {
		sp = c06Span{}
	}
	ef.spans[fn] = &sp
	return sp
}

// weight is the per-node weight for graph g: direct occurrences plus the spans of the same-module
// functions the node calls synchronously (calls in go statements and function literals do not count).
func (ef *c06Effect) weight(g *core.Graph, depth int) func(int) c06Span {
	cache := map[int]c06Span{}
	return func(n int) c06Span {
		if v, ok := cache[n]; ok {
			return v
		}
		var sp c06Span
		a := g.Nodes[n].Ast
		if a != nil {
			if _, isGo := a.(*ast.GoStmt); !isGo {
				k := ef.direct(g.Info, a)
				sp = sp.add(c06Span{k, k})
				if depth < ef.maxDeep {
					for _, call := range core.CallsIn(a) {
						if cal := core.Callee(g.Info, call); cal != nil && ef.p.DeclOf(cal) != nil {
							sp = sp.add(ef.span(cal, depth+1))
						}
					}
				}
			}
		}
		cache[n] = sp
		return sp
	}
}

// c06OnlyCalledFrom reports whether every use of fn in the module is a direct call located (outside
// function literals and go statements) in root or in a function that itself is only called from root.
func c06OnlyCalledFrom(p *core.Program, fn *types.Func, root *types.Func, depth int) bool {
	if fn == root {
		return true
	}
	if depth > 3 {
		return false
	}
	uses := 0
	ok := true
	for _, fi := range p.AllFuncs() {
		if fi.Decl.Body == nil {
			continue
		}
		if !fn.Exported() && fi.Pkg.Types != fn.Pkg() {
			continue // an unexported function / method cannot be named from another package
		}
		info := fi.Pkg.TypesInfo
		var callFuns = map[*ast.Ident]bool{}
		inAsync := map[*ast.CallExpr]bool{}
		ast.Inspect(fi.Decl.Body, func(x ast.Node) bool {
			switch s := x.(type) {
			case *ast.GoStmt:
				inAsync[s.Call] = true
			case *ast.FuncLit:
				ast.Inspect(s.Body, func(y ast.Node) bool {
					if c, isCall := y.(*ast.CallExpr); isCall {
						inAsync[c] = true
					}
					return true
				})
			case *ast.CallExpr:
				if core.Callee(info, s) == fn.Origin() && !inAsync[s] {
					switch f := ast.Unparen(s.Fun).(type) {
					case *ast.Ident:
						callFuns[f] = true
					case *ast.SelectorExpr:
						callFuns[f.Sel] = true
					}
				}
			}
			return true
		})
		ast.Inspect(fi.Decl.Body, func(x ast.Node) bool {
			id, isID := x.(*ast.Ident)
			if !isID || info.Uses[id] != types.Object(fn) {
				return true
			}
			uses++
			if !callFuns[id] || !c06OnlyCalledFrom(p, fi.Obj, root, depth+1) {
				ok = false
			}
			return true
		})
	}
	return ok && uses > 0
}
