package props

import (
	"go/ast"
	"go/token"
	"go/types"
	"sort"
	"strings"

	"verif/checker/core"
)

// c23R10: RTPSender.ReplaceTrack keeps, per encoding, the context the current track is bound with; when a later
// ReplaceTrack fails it re-binds the current track with exactly that stored context. So after a successful Bind of the
// new track the stored context must name the codec that Bind returned: every path from the successful Bind to a
// successful return passes `<stored context>.params.Codecs = {...codec...}` or an edge establishing that the payload
// type already equals codec.PayloadType. Otherwise a failed replace leaves the current track unbound and its media is
// silently dropped although Track() still reports it.
func c23R10(c *Ctx) {
	r := c.R
	const rule = "C23.R10"
	fi := c.mustFunc(rule, "", "RTPSender.ReplaceTrack")
	codecsF := c.mustField(rule, "", "RTPParameters", "Codecs")
	ptF := c.mustField(rule, "", "RTPCodecParameters", "PayloadType")
	if fi == nil || codecsF == nil || ptF == nil {
		return
	}
	g := c.P.GraphOf(fi)
	info := g.Info
	pos := c.P.Pos(fi.Decl.Pos())
	sig := fi.Obj.Type().(*types.Signature)
	if sig.Params().Len() != 1 {
		r.Undecided(rule, "ReplaceTrack|stored-context-follows-bound-codec", pos, "ReplaceTrack no longer takes exactly the new track")
		return
	}
	track := sig.Params().At(0)
	bind, codecVar := -1, (*types.Var)(nil)
	for _, n := range g.Nodes {
		as, ok := n.Ast.(*ast.AssignStmt)
		if !ok || len(as.Rhs) != 1 || len(as.Lhs) != 2 {
			continue
		}
		call, ok := ast.Unparen(as.Rhs[0]).(*ast.CallExpr)
		if !ok {
			continue
		}
		sel, ok := ast.Unparen(call.Fun).(*ast.SelectorExpr)
		if ok && sel.Sel.Name == "Bind" && core.VarOf(info, sel.X) == track {
			bind, codecVar = n.ID, core.VarOf(info, as.Lhs[0])
		}
	}
	if bind < 0 || codecVar == nil {
		r.Undecided(rule, "ReplaceTrack|stored-context-follows-bound-codec", pos, "no `codec, err := track.Bind(...)` on the new track")
		return
	}
	mentionsCodec := func(e ast.Expr) bool {
		found := false
		ast.Inspect(e, func(x ast.Node) bool {
			if id, ok := x.(*ast.Ident); ok && info.Uses[id] == types.Object(codecVar) {
				found = true
			}
			return true
		})
		return found
	}
	stores := map[int]bool{}
	for _, n := range g.Nodes {
		as, ok := n.Ast.(*ast.AssignStmt)
		if !ok || len(as.Lhs) != len(as.Rhs) {
			continue
		}
		for i, l := range as.Lhs {
			if core.FieldOf(info, l) == codecsF && mentionsCodec(as.Rhs[i]) {
				stores[n.ID] = true
			}
		}
	}
	samePT := func(e core.Edge) bool {
		if e.Cond == nil || e.Tag != nil || e.Branch == 0 {
			return false
		}
		b, ok := ast.Unparen(e.Cond).(*ast.BinaryExpr)
		if !ok || (b.Op != token.EQL && b.Op != token.NEQ) || (e.Branch == 1) != (b.Op == token.EQL) {
			return false
		}
		isCodecPT := func(x ast.Expr) bool {
			sel, ok := ast.Unparen(x).(*ast.SelectorExpr)
			return ok && core.FieldOf(info, sel) == ptF && core.VarOf(info, sel.X) == codecVar
		}
		return isCodecPT(b.X) || isCodecPT(b.Y)
	}
	reach := g.Reach([]int{bind}, func(x int) bool { return stores[x] }, func(from, idx int, e core.Edge) bool { return samePT(e) })
	var bad []string
	for x := range reach {
		if ret, ok := g.Nodes[x].Ast.(*ast.ReturnStmt); ok {
			if mf, _ := g.ReturnMayFail(ret, nil); !mf {
				bad = append(bad, c.P.Pos(ret.Pos()))
			}
		}
	}
	sort.Strings(bad)
	r.Cells++
	r.Check(len(bad) == 0, rule, "ReplaceTrack|stored-context-follows-bound-codec", c.P.Pos(g.PosOf(bind)), sprintf("every successful return after the new track's Bind passes one of %d store(s) of the bound codec into the stored context (or a test that the payload type is unchanged)", len(stores)),
		"ReplaceTrack can succeed (at "+strings.Join(bad, ", ")+") without recording the codec the new track was bound with in the encoding's stored context: a later failed ReplaceTrack re-binds the current track with a stale codec list, the re-bind fails and the track's media is silently dropped")
}

// c23R12: "the remote track's stream id and track id match the sender's description". C23.R3 ties TrackRemote.id/streamID to
// trackDetails.id/streamID; this rule ties those to the text of the SDP: a local that is stored into trackDetails.id /
// trackDetails.streamID is never assigned the result of a cutset-trimming call (strings.Trim / TrimLeft / TrimRight with a
// constant cutset containing letters or digits). Such a call removes any run of the cutset's characters, not a prefix:
// `strings.TrimLeft("msid:desktop", "msid:")` yields "esktop".
func c23R12(c *Ctx) {
	r := c.R
	const rule = "C23.R12"
	idF := c.mustField(rule, "", "trackDetails", "id")
	streamF := c.mustField(rule, "", "trackDetails", "streamID")
	if idF == nil || streamF == nil {
		return
	}
	pkg := c.P.Pkg("")
	n := 0
	for _, fi := range c.P.AllFuncs() {
		if fi.Pkg != pkg || fi.Decl == nil || fi.Decl.Body == nil {
			continue
		}
		info := fi.Pkg.TypesInfo
		// locals that reach the two fields
		feeds := map[*types.Var]string{}
		ast.Inspect(fi.Decl.Body, func(x ast.Node) bool {
			switch s := x.(type) {
			case *ast.AssignStmt:
				if len(s.Lhs) != len(s.Rhs) {
					return true
				}
				for i, l := range s.Lhs {
					if f := core.FieldOf(info, l); f == idF || f == streamF {
						if v := core.VarOf(info, s.Rhs[i]); v != nil {
							feeds[v] = f.Name()
						}
					}
				}
			case *ast.KeyValueExpr:
				if id, ok := s.Key.(*ast.Ident); ok {
					if f, ok := info.Uses[id].(*types.Var); ok && (f == idF || f == streamF) {
						if v := core.VarOf(info, s.Value); v != nil {
							feeds[v] = f.Name()
						}
					}
				}
			}
			return true
		})
		if len(feeds) == 0 {
			continue
		}
		ast.Inspect(fi.Decl.Body, func(x ast.Node) bool {
			as, ok := x.(*ast.AssignStmt)
			if !ok || len(as.Lhs) != len(as.Rhs) {
				return true
			}
			for i, l := range as.Lhs {
				v := core.VarOf(info, l)
				field, isFeed := feeds[v]
				if !isFeed {
					continue
				}
				n++
				bad := ""
				ast.Inspect(as.Rhs[i], func(y ast.Node) bool {
					call, ok := y.(*ast.CallExpr)
					if !ok || len(call.Args) != 2 {
						return true
					}
					fn := core.Callee(info, call)
					if fn == nil || fn.Pkg() == nil || fn.Pkg().Path() != "strings" {
						return true
					}
					switch fn.Name() {
					case "Trim", "TrimLeft", "TrimRight":
						if cs, ok := c06ConstString(info, call.Args[1]); ok && len(cs) > 1 && strings.ContainsAny(cs, "abcdefghijklmnopqrstuvwxyzABCDEFGHIJKLMNOPQRSTUVWXYZ0123456789") {
							bad = "strings." + fn.Name() + "(…, " + sprintf("%q", cs) + ") treats its second argument as a set of characters"
						}
					}
					return true
				})
				r.Check(bad == "", rule, sprintf("%s|%s<-#%d|no-cutset-trim", fi.Name(), field, n), c.P.Pos(as.Pos()), "the identifier is taken from the SDP text by slicing / prefix removal / field splitting",
					"the value that becomes trackDetails."+field+" is produced by "+bad+": every leading/trailing character that occurs in the set is removed, so a stream or track id starting with such characters reaches the TrackRemote shortened (msid \"desktop\" -> \"esktop\")")
			}
			return true
		})
	}
	if n == 0 {
		r.Undecided(rule, "trackDetails|id-sources", "-", "no local feeding trackDetails.id / streamID found")
	}
}
