package props

import (
	"go/ast"
	"go/token"
	"go/types"
	"sort"
	"strings"

	"verif/checker/core"
)

// c23R10: RTPSender.ReplaceTrack keeps, per encoding, the context the current track is bound with; when a later
// ReplaceTrack fails it re-binds the current track with exactly that stored context. So after a successful Bind of the
// new track the stored context must name the codec that Bind returned: every path from the successful Bind to a
// successful return passes `<stored context>.params.Codecs = {...codec...}` or an edge establishing that the payload
// type already equals codec.PayloadType. Otherwise a failed replace leaves the current track unbound and its media is
// silently dropped although Track() still reports it.
func c23R10(c *Ctx) {
	r := c.R
	const rule = "C23.R10"
	fi := c.mustFunc(rule, "", "RTPSender.ReplaceTrack")
	codecsF := c.mustField(rule, "", "RTPParameters", "Codecs")
	ptF := c.mustField(rule, "", "RTPCodecParameters", "PayloadType")
	if fi == nil || codecsF == nil || ptF == nil {
		return
	}
	g := c.P.GraphOf(fi)
	info := g.Info
	pos := c.P.Pos(fi.Decl.Pos())
	sig := fi.Obj.Type().(*types.Signature)
	if sig.Params().Len() != 1 {
		r.Undecided(rule, "ReplaceTrack|stored-context-follows-bound-codec", pos, "ReplaceTrack no longer takes exactly the new track")
		return
	}
	track := sig.Params().At(0)
	bind, codecVar := -1, (*types.Var)(nil)
	for _, n := range g.Nodes {
		as, ok := n.Ast.(*ast.AssignStmt)
		if !ok || len(as.Rhs) != 1 || len(as.Lhs) != 2 {
			continue
		}
		call, ok := ast.Unparen(as.Rhs[0]).(*ast.CallExpr)
		if !ok {
			continue
		}
		sel, ok := ast.Unparen(call.Fun).(*ast.SelectorExpr)
		if ok && sel.Sel.Name == "Bind" && core.VarOf(info, sel.X) == track {
			bind, codecVar = n.ID, core.VarOf(info, as.Lhs[0])
		}
	}
	if bind < 0 || codecVar == nil {
		r.Undecided(rule, "ReplaceTrack|stored-context-follows-bound-codec", pos, "no `codec, err := track.Bind(...)` on the new track")
		return
	}
	mentionsCodec := func(e ast.Expr) bool {
		found := false
		ast.Inspect(e, func(x ast.Node) bool {
			if id, ok := x.(*ast.Ident); ok && info.Uses[id] == types.Object(codecVar) {
				found = true
			}
			return true
		})
		return found
	}
	stores := map[int]bool{}
	for _, n := range g.Nodes {
		as, ok := n.Ast.(*ast.AssignStmt)
		if !ok || len(as.Lhs) != len(as.Rhs) {
			continue
		}
		for i, l := range as.Lhs {
			if core.FieldOf(info, l) == codecsF && mentionsCodec(as.Rhs[i]) {
				stores[n.ID] = true
			}
		}
	}
	samePT := func(e core.Edge) bool {
		if e.Cond == nil || e.Tag != nil || e.Branch == 0 {
			return false
		}
		b, ok := ast.Unparen(e.Cond).(*ast.BinaryExpr)
		if !ok || (b.Op != token.EQL && b.Op != token.NEQ) || (e.Branch == 1) != (b.Op == token.EQL) {
			return false
		}
		isCodecPT := func(x ast.Expr) bool {
			sel, ok := ast.Unparen(x).(*ast.SelectorExpr)
			return ok && core.FieldOf(info, sel) == ptF && core.VarOf(info, sel.X) == codecVar
		}
		return isCodecPT(b.X) || isCodecPT(b.Y)
	}
	reach := g.Reach([]int{bind}, func(x int) bool { return stores[x] }, func(from, idx int, e core.Edge) bool { return samePT(e) })
	var bad []string
	for x := range reach {
		if ret, ok := g.Nodes[x].Ast.(*ast.ReturnStmt); ok {
			if mf, _ := g.ReturnMayFail(ret, nil); !mf {
				bad = append(bad, c.P.Pos(ret.Pos()))
			}
		}
	}
	sort.Strings(bad)
	r.Cells++
	r.Check(len(bad) == 0, rule, "ReplaceTrack|stored-context-follows-bound-codec", c.P.Pos(g.PosOf(bind)), sprintf("every successful return after the new track's Bind passes one of %d store(s) of the bound codec into the stored context (or a test that the payload type is unchanged)", len(stores)),
		"ReplaceTrack can succeed (at "+strings.Join(bad, ", ")+") without recording the codec the new track was bound with in the encoding's stored context: a later failed ReplaceTrack re-binds the current track with a stale codec list, the re-bind fails and the track's media is silently dropped")
}
