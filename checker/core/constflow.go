package core

import (
	"fmt"
	"go/ast"
	"go/constant"
	"go/token"
	"go/types"
	"sort"
	"strings"
)

// ConstFlow is a small path-sensitive constant propagation over the node-level
// CFG. It tracks, per path, the known constant values of *local* variables
// (bool / integer / string constants; for pointer- and interface-typed
// variables a boolean "is non-nil" fact), prunes branches whose condition
// evaluates to a known constant, and records with which environments every
// node is reached. Values the engine cannot know are supplied by the rule:
//
//   - Inject is asked at every definition of a tracked local whose right-hand
//     side does not evaluate to a constant (tuple assignments, calls, map
//     lookups, type assertions, range variables). Returning ok=false leaves
//     the variable unknown (both arms of a later branch are explored).
//   - Assume is asked for any sub-expression before structural evaluation
//     (calls, selectors, len(...), index expressions). Returning ok=false
//     falls back to structural evaluation.
//
// Nothing of the analysed program runs: this is constant propagation with
// branch pruning, the CFG-level sibling of absint for rules that need to ask
// "which nodes are reachable when this definition has that value".
type ConstFlow struct {
	G      *Graph
	Inject func(node int, v *types.Var, rhs ast.Expr, idx int, env CFEnv) (constant.Value, bool)
	Assume func(e ast.Expr, env CFEnv) (constant.Value, bool)
	// Stop nodes are recorded as reached but not executed or expanded.
	Stop func(node int) bool
	// AvoidEdge prunes edges (e.g. the back edge of a loop).
	AvoidEdge func(from, idx int, e Edge) bool
	MaxStates int

	untrack map[*types.Var]bool
	prepped bool
}

// CFEnv is an immutable environment: known constants of local variables.
type CFEnv struct {
	m map[*types.Var]constant.Value
}

// Get returns the known value of v.
func (e CFEnv) Get(v *types.Var) (constant.Value, bool) {
	c, ok := e.m[v]
	return c, ok
}

// With returns a copy with v bound to c.
func (e CFEnv) With(v *types.Var, c constant.Value) CFEnv {
	n := make(map[*types.Var]constant.Value, len(e.m)+1)
	for k, x := range e.m {
		n[k] = x
	}
	n[v] = c
	return CFEnv{n}
}

// Without returns a copy with v unknown.
func (e CFEnv) Without(v *types.Var) CFEnv {
	if _, ok := e.m[v]; !ok {
		return e
	}
	n := make(map[*types.Var]constant.Value, len(e.m))
	for k, x := range e.m {
		if k != v {
			n[k] = x
		}
	}
	return CFEnv{n}
}

func (e CFEnv) key() string {
	parts := make([]string, 0, len(e.m))
	for k, x := range e.m {
		parts = append(parts, fmt.Sprintf("%d=%s", k.Pos(), x.ExactString()))
	}
	sort.Strings(parts)
	return strings.Join(parts, ",")
}

// String renders the environment by variable name (diagnostics only).
func (e CFEnv) String() string {
	parts := make([]string, 0, len(e.m))
	for k, x := range e.m {
		parts = append(parts, k.Name()+"="+x.ExactString())
	}
	sort.Strings(parts)
	return strings.Join(parts, ",")
}

// CFResult is the outcome of one exploration.
type CFResult struct {
	Reached  map[int][]CFEnv // node -> environments with which it was reached (before execution)
	Problems []string
	States   int
}

// ReachedNode reports whether n was reached at all.
func (r *CFResult) ReachedNode(n int) bool { return len(r.Reached[n]) > 0 }

func (cf *ConstFlow) prep() {
	if cf.prepped {
		return
	}
	cf.prepped = true
	cf.untrack = map[*types.Var]bool{}
	info := cf.G.Info
	// address-taken locals and locals assigned inside nested function literals are never tracked
	var walk func(n ast.Node, inLit bool)
	walk = func(n ast.Node, inLit bool) {
		ast.Inspect(n, func(x ast.Node) bool {
			switch s := x.(type) {
			case *ast.FuncLit:
				if ast.Node(s) != cf.G.Fn {
					walk(s.Body, true)
					return false
				}
			case *ast.UnaryExpr:
				if s.Op == token.AND {
					if v := VarOf(info, s.X); v != nil {
						cf.untrack[v] = true
					}
				}
			case *ast.AssignStmt:
				if inLit {
					for _, l := range s.Lhs {
						if v := VarOf(info, l); v != nil {
							cf.untrack[v] = true
						}
					}
				}
			case *ast.IncDecStmt:
				if inLit {
					if v := VarOf(info, s.X); v != nil {
						cf.untrack[v] = true
					}
				}
			case *ast.RangeStmt:
				if inLit {
					for _, e := range []ast.Expr{s.Key, s.Value} {
						if e != nil {
							if v := VarOf(info, e); v != nil {
								cf.untrack[v] = true
							}
						}
					}
				}
			}
			return true
		})
	}
	walk(cf.G.Body, false)
}

func (cf *ConstFlow) tracked(v *types.Var) bool {
	if v == nil || v.Pkg() == nil || v.IsField() {
		return false
	}
	if v.Parent() == v.Pkg().Scope() {
		return false // package-level
	}
	return !cf.untrack[v]
}

// Run explores from node start (executing it) with the initial environment.
func (cf *ConstFlow) Run(start int, init CFEnv) *CFResult {
	cf.prep()
	if cf.MaxStates == 0 {
		cf.MaxStates = 200000
	}
	res := &CFResult{Reached: map[int][]CFEnv{}}
	type item struct {
		n   int
		env CFEnv
	}
	seen := map[string]bool{}
	widen := map[string]map[string]bool{} // node|var -> distinct values
	work := []item{{start, init}}
	problems := map[string]bool{}
	for len(work) > 0 {
		it := work[len(work)-1]
		work = work[:len(work)-1]
		k := fmt.Sprintf("%d|%s", it.n, it.env.key())
		if seen[k] {
			continue
		}
		seen[k] = true
		res.States++
		if res.States > cf.MaxStates {
			problems["state budget exceeded"] = true
			break
		}
		res.Reached[it.n] = append(res.Reached[it.n], it.env)
		node := cf.G.Nodes[it.n]
		if node.Kind == NExit || node.Kind == NPanic {
			continue
		}
		if cf.Stop != nil && cf.Stop(it.n) && it.n != start {
			continue
		}
		env := it.env
		// widening: an integer variable taking more than 40 values at one node becomes unknown
		if node.Kind == NHead {
			for v, c := range env.m {
				if c.Kind() != constant.Int {
					continue
				}
				wk := fmt.Sprintf("%d|%d", it.n, v.Pos())
				if widen[wk] == nil {
					widen[wk] = map[string]bool{}
				}
				widen[wk][c.ExactString()] = true
				if len(widen[wk]) > 40 {
					env = env.Without(v)
				}
			}
		}
		env = cf.exec(it.n, node, env)
		switch {
		case len(node.Succs) == 2 && node.Succs[0].Range != nil:
			rs := node.Succs[0].Range
			for i, e := range node.Succs {
				if cf.AvoidEdge != nil && cf.AvoidEdge(it.n, i, e) {
					continue
				}
				ne := env
				if e.Branch == 1 {
					for j, x := range []ast.Expr{rs.Key, rs.Value} {
						if x == nil {
							continue
						}
						if v := VarOf(cf.G.Info, x); v != nil {
							ne = cf.define(it.n, v, rs.X, j, ne)
						}
					}
				}
				work = append(work, item{e.To, ne})
			}
		case len(node.Succs) == 2 && node.Succs[0].Cond != nil:
			e0 := node.Succs[0]
			var truth constant.Value
			known := false
			if e0.Tag != nil {
				tv, ok1 := cf.Eval(e0.Tag, env)
				cv, ok2 := cf.Eval(e0.Cond, env)
				if ok1 && ok2 && tv.Kind() == cv.Kind() {
					truth, known = constant.MakeBool(constant.Compare(tv, token.EQL, cv)), true
				}
			} else {
				truth, known = cf.Eval(e0.Cond, env)
				if known && truth.Kind() != constant.Bool {
					known = false
				}
			}
			for i, e := range node.Succs {
				if cf.AvoidEdge != nil && cf.AvoidEdge(it.n, i, e) {
					continue
				}
				want := e.Branch == 1
				if known && constant.BoolVal(truth) != want {
					continue
				}
				ne := env
				if !known {
					ne = cf.refine(e, want, env)
				}
				work = append(work, item{e.To, ne})
			}
		default:
			for i, e := range node.Succs {
				if cf.AvoidEdge != nil && cf.AvoidEdge(it.n, i, e) {
					continue
				}
				work = append(work, item{e.To, env})
			}
		}
	}
	for p := range problems {
		res.Problems = append(res.Problems, p)
	}
	sort.Strings(res.Problems)
	return res
}

// refine learns a fact from taking an edge whose condition was unknown.
func (cf *ConstFlow) refine(e Edge, truth bool, env CFEnv) CFEnv {
	info := cf.G.Info
	if e.Tag != nil {
		if !truth {
			return env
		}
		if v := VarOf(info, e.Tag); v != nil && cf.tracked(v) {
			if c, ok := cf.Eval(e.Cond, env); ok {
				return env.With(v, c)
			}
		}
		return env
	}
	cond := ast.Unparen(e.Cond)
	if v := VarOf(info, cond); v != nil && cf.tracked(v) && isBoolType(v.Type()) {
		return env.With(v, constant.MakeBool(truth))
	}
	if be, ok := cond.(*ast.BinaryExpr); ok && (be.Op == token.EQL || be.Op == token.NEQ) {
		eq := (be.Op == token.EQL) == truth
		if !eq {
			return env
		}
		for _, pr := range [][2]ast.Expr{{be.X, be.Y}, {be.Y, be.X}} {
			if v := VarOf(info, pr[0]); v != nil && cf.tracked(v) {
				if _, known := env.Get(v); known {
					continue
				}
				if c, ok := cf.Eval(pr[1], env); ok && !IsNilIdent(info, pr[1]) {
					return env.With(v, c)
				}
			}
		}
	}
	return env
}

func isBoolType(t types.Type) bool {
	b, ok := t.Underlying().(*types.Basic)
	return ok && b.Info()&types.IsBoolean != 0
}

// define binds v at a definition: evaluated RHS, else Inject, else unknown.
func (cf *ConstFlow) define(node int, v *types.Var, rhs ast.Expr, idx int, env CFEnv) CFEnv {
	if !cf.tracked(v) {
		return env
	}
	if cf.Inject != nil {
		if c, ok := cf.Inject(node, v, rhs, idx, env); ok {
			return env.With(v, c)
		}
	}
	return env.Without(v)
}

// exec applies the effect of a node on the environment.
func (cf *ConstFlow) exec(id int, node *Node, env CFEnv) CFEnv {
	if node.Ast == nil {
		return env
	}
	info := cf.G.Info
	switch s := node.Ast.(type) {
	case *ast.AssignStmt:
		return cf.execAssign(id, s, env)
	case *ast.IncDecStmt:
		if v := VarOf(info, s.X); v != nil && cf.tracked(v) {
			if c, ok := env.Get(v); ok && c.Kind() == constant.Int {
				op := token.ADD
				if s.Tok == token.DEC {
					op = token.SUB
				}
				return env.With(v, constant.BinaryOp(c, op, constant.MakeInt64(1)))
			}
			return env.Without(v)
		}
	case *ast.DeclStmt:
		if gd, ok := s.Decl.(*ast.GenDecl); ok && gd.Tok == token.VAR {
			for _, sp := range gd.Specs {
				env = cf.execSpec(id, sp.(*ast.ValueSpec), env)
			}
		}
	case *ast.ValueSpec:
		return cf.execSpec(id, s, env)
	}
	return env
}

func (cf *ConstFlow) execSpec(id int, vs *ast.ValueSpec, env CFEnv) CFEnv {
	info := cf.G.Info
	for i, nm := range vs.Names {
		v, _ := info.Defs[nm].(*types.Var)
		if v == nil || !cf.tracked(v) {
			continue
		}
		switch {
		case len(vs.Values) == 0:
			if z, ok := zeroConst(v.Type()); ok {
				env = env.With(v, z)
			} else {
				env = env.Without(v)
			}
		case len(vs.Values) == len(vs.Names):
			if c, ok := cf.Eval(vs.Values[i], env); ok {
				env = env.With(v, c)
			} else {
				env = cf.define(id, v, vs.Values[i], -1, env)
			}
		default:
			env = cf.define(id, v, vs.Values[0], i, env)
		}
	}
	return env
}

func zeroConst(t types.Type) (constant.Value, bool) {
	switch u := t.Underlying().(type) {
	case *types.Basic:
		switch {
		case u.Info()&types.IsBoolean != 0:
			return constant.MakeBool(false), true
		case u.Info()&types.IsInteger != 0:
			return constant.MakeInt64(0), true
		case u.Info()&types.IsString != 0:
			return constant.MakeString(""), true
		}
	case *types.Pointer, *types.Interface, *types.Slice, *types.Map, *types.Chan, *types.Signature:
		return constant.MakeBool(false), true // "is non-nil" = false
	}
	return nil, false
}

func (cf *ConstFlow) execAssign(id int, s *ast.AssignStmt, env CFEnv) CFEnv {
	info := cf.G.Info
	if s.Tok != token.ASSIGN && s.Tok != token.DEFINE {
		// op-assignment: integers with known operands are computed, everything else becomes unknown
		if v := VarOf(info, s.Lhs[0]); v != nil && cf.tracked(v) {
			if c, ok := env.Get(v); ok && c.Kind() == constant.Int {
				if r, ok := cf.Eval(s.Rhs[0], env); ok && r.Kind() == constant.Int {
					if op, ok := map[token.Token]token.Token{token.ADD_ASSIGN: token.ADD, token.SUB_ASSIGN: token.SUB, token.MUL_ASSIGN: token.MUL}[s.Tok]; ok {
						return env.With(v, constant.BinaryOp(c, op, r))
					}
				}
			}
			return env.Without(v)
		}
		return env
	}
	if len(s.Lhs) == len(s.Rhs) {
		// evaluate all right-hand sides in the old environment
		type upd struct {
			v   *types.Var
			c   constant.Value
			ok  bool
			rhs ast.Expr
		}
		var us []upd
		for i, l := range s.Lhs {
			v := VarOf(info, l)
			if v == nil || !cf.tracked(v) {
				continue
			}
			c, ok := cf.Eval(s.Rhs[i], env)
			us = append(us, upd{v, c, ok, s.Rhs[i]})
		}
		for _, u := range us {
			if u.ok {
				env = env.With(u.v, u.c)
			} else {
				env = cf.define(id, u.v, u.rhs, -1, env)
			}
		}
		return env
	}
	if len(s.Rhs) == 1 {
		for i, l := range s.Lhs {
			if v := VarOf(info, l); v != nil && cf.tracked(v) {
				env = cf.define(id, v, s.Rhs[0], i, env)
			}
		}
	}
	return env
}

// Eval evaluates e three-valued: (constant, true) or (nil, false) when unknown.
func (cf *ConstFlow) Eval(e ast.Expr, env CFEnv) (constant.Value, bool) {
	cf.prep()
	info := cf.G.Info
	e = ast.Unparen(e)
	if tv, ok := info.Types[e]; ok && tv.Value != nil {
		return tv.Value, true
	}
	if cf.Assume != nil {
		if c, ok := cf.Assume(e, env); ok {
			return c, true
		}
	}
	switch x := e.(type) {
	case *ast.Ident:
		if v := VarOf(info, x); v != nil && cf.tracked(v) {
			return env.Get(v)
		}
	case *ast.UnaryExpr:
		c, ok := cf.Eval(x.X, env)
		if !ok {
			return nil, false
		}
		switch {
		case x.Op == token.NOT && c.Kind() == constant.Bool:
			return constant.MakeBool(!constant.BoolVal(c)), true
		case x.Op == token.SUB && c.Kind() == constant.Int:
			return constant.UnaryOp(token.SUB, c, 0), true
		}
	case *ast.BinaryExpr:
		switch x.Op {
		case token.LAND, token.LOR:
			a, aok := cf.Eval(x.X, env)
			if aok && a.Kind() == constant.Bool {
				if constant.BoolVal(a) == (x.Op == token.LOR) {
					return a, true // short circuit
				}
				return cf.evalBool(x.Y, env)
			}
			b, bok := cf.evalBool(x.Y, env)
			if bok && constant.BoolVal(b) == (x.Op == token.LOR) {
				// the right operand alone decides (evaluation of X has no tracked effect)
				return b, true
			}
			return nil, false
		case token.EQL, token.NEQ, token.LSS, token.LEQ, token.GTR, token.GEQ:
			// nil tests on variables carrying an "is non-nil" fact
			if x.Op == token.EQL || x.Op == token.NEQ {
				for _, pr := range [][2]ast.Expr{{x.X, x.Y}, {x.Y, x.X}} {
					if IsNilIdent(info, pr[1]) {
						c, ok := cf.Eval(pr[0], env)
						if ok && c.Kind() == constant.Bool && !isBoolType(info.TypeOf(pr[0])) {
							nonNil := constant.BoolVal(c)
							return constant.MakeBool(nonNil == (x.Op == token.NEQ)), true
						}
						return nil, false
					}
				}
			}
			a, aok := cf.Eval(x.X, env)
			b, bok := cf.Eval(x.Y, env)
			if aok && bok && a.Kind() == b.Kind() && a.Kind() != constant.Unknown {
				if a.Kind() == constant.Bool && x.Op != token.EQL && x.Op != token.NEQ {
					return nil, false
				}
				return constant.MakeBool(constant.Compare(a, x.Op, b)), true
			}
		case token.ADD, token.SUB, token.MUL:
			a, aok := cf.Eval(x.X, env)
			b, bok := cf.Eval(x.Y, env)
			if aok && bok && a.Kind() == constant.Int && b.Kind() == constant.Int {
				return constant.BinaryOp(a, x.Op, b), true
			}
		}
	case *ast.CallExpr:
		// conversion between basic types keeps the constant
		if tv, ok := info.Types[x.Fun]; ok && tv.IsType() && len(x.Args) == 1 {
			if _, basic := tv.Type.Underlying().(*types.Basic); basic {
				return cf.Eval(x.Args[0], env)
			}
		}
	}
	return nil, false
}

func (cf *ConstFlow) evalBool(e ast.Expr, env CFEnv) (constant.Value, bool) {
	c, ok := cf.Eval(e, env)
	if ok && c.Kind() == constant.Bool {
		return c, true
	}
	return nil, false
}

// ---- small shared helpers for rules built on ConstFlow ----

// RangeBodyEntry returns the node at which an iteration of rs starts (the
// target of the iterate edge of its loop head), the loop head node and the
// node the done edge leads to. ok=false if rs is not in g.
func (g *Graph) RangeLoop(rs *ast.RangeStmt) (head, body, done int, ok bool) {
	for _, n := range g.Nodes {
		if len(n.Succs) == 2 && n.Succs[0].Range == rs {
			return n.ID, n.Succs[0].To, n.Succs[1].To, true
		}
	}
	return 0, 0, 0, false
}

// NodeOf returns the live graph node whose AST contains x (not descending into function literals), or -1.
func (g *Graph) NodeOf(x ast.Node) int {
	live := g.Live()
	for _, n := range g.Nodes {
		if n.Ast == nil || !live[n.ID] {
			continue
		}
		if n.Ast.Pos() <= x.Pos() && x.End() <= n.Ast.End() {
			found := false
			InspectShallow(n.Ast, func(y ast.Node) bool {
				if y == x {
					found = true
				}
				return !found
			})
			if found {
				return n.ID
			}
		}
	}
	return -1
}

// EnclosingStmts returns the chain of AST nodes from the function body down to x (inclusive).
func (g *Graph) PathTo(x ast.Node) []ast.Node {
	var path, out []ast.Node
	ast.Inspect(g.Body, func(n ast.Node) bool {
		if out != nil {
			return false
		}
		if n == nil {
			path = path[:len(path)-1]
			return false
		}
		path = append(path, n)
		if n == x {
			out = append([]ast.Node{}, path...)
			return false
		}
		return true
	})
	return out
}
