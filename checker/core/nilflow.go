package core

import (
	"go/ast"
	"go/token"
	"go/types"
	"sort"
	"strings"
)

// NilFlow is a small path-sensitive forward exploration of a Graph that
// tracks which (error) variables are known to be nil, pruning branch edges
// that contradict what is known. It is used for "no error exit is reachable
// from the success edge of X" rules.
type NilFlow struct {
	G *Graph
	// Reached maps node -> the distinct known-nil sets with which it is reached.
	Reached map[int][]VarSet
}

// VarSet is a small set of variables (sorted by position for canonical form).
type VarSet []*types.Var

func (s VarSet) Has(v *types.Var) bool {
	for _, x := range s {
		if x == v {
			return true
		}
	}
	return false
}

func (s VarSet) with(v *types.Var) VarSet {
	if s.Has(v) {
		return s
	}
	out := append(append(VarSet{}, s...), v)
	sort.Slice(out, func(i, j int) bool { return out[i].Pos() < out[j].Pos() })
	return out
}

func (s VarSet) without(v *types.Var) VarSet {
	if !s.Has(v) {
		return s
	}
	var out VarSet
	for _, x := range s {
		if x != v {
			out = append(out, x)
		}
	}
	return out
}

func (s VarSet) key() string {
	var b strings.Builder
	for _, v := range s {
		b.WriteString(v.Name())
		b.WriteByte('@')
		b.WriteString(itoa(int(v.Pos())))
		b.WriteByte(',')
	}
	return b.String()
}

func itoa(i int) string {
	if i == 0 {
		return "0"
	}
	neg := i < 0
	if neg {
		i = -i
	}
	var b [20]byte
	p := len(b)
	for i > 0 {
		p--
		b[p] = byte('0' + i%10)
		i /= 10
	}
	if neg {
		p--
		b[p] = '-'
	}
	return string(b[p:])
}

// NilTest recognises `v == nil` / `v != nil` (either operand order) and returns v and whether the operator is ==.
func NilTest(info *types.Info, e ast.Expr) (v *types.Var, isEq bool, ok bool) {
	be, isBin := ast.Unparen(e).(*ast.BinaryExpr)
	if !isBin || (be.Op != token.EQL && be.Op != token.NEQ) {
		return nil, false, false
	}
	x, y := be.X, be.Y
	if IsNilIdent(info, x) {
		x, y = y, x
	}
	if !IsNilIdent(info, y) {
		return nil, false, false
	}
	v = VarOf(info, x)
	if v == nil {
		return nil, false, false
	}
	return v, be.Op == token.EQL, true
}

// edgeFacts returns the variables known nil / non-nil when the given edge is taken.
// It decomposes && on true edges and || on false edges, and ! everywhere.
func edgeFacts(info *types.Info, cond ast.Expr, truth bool, nilVars, nonNil *[]*types.Var) {
	cond = ast.Unparen(cond)
	switch c := cond.(type) {
	case *ast.UnaryExpr:
		if c.Op == token.NOT {
			edgeFacts(info, c.X, !truth, nilVars, nonNil)
		}
	case *ast.BinaryExpr:
		switch c.Op {
		case token.LAND:
			if truth {
				edgeFacts(info, c.X, true, nilVars, nonNil)
				edgeFacts(info, c.Y, true, nilVars, nonNil)
			}
		case token.LOR:
			if !truth {
				edgeFacts(info, c.X, false, nilVars, nonNil)
				edgeFacts(info, c.Y, false, nilVars, nonNil)
			}
		case token.EQL, token.NEQ:
			if v, isEq, ok := NilTest(info, c); ok {
				if isEq == truth {
					*nilVars = append(*nilVars, v)
				} else {
					*nonNil = append(*nonNil, v)
				}
			}
		}
	}
}

// assignedVars lists variables (re)assigned by node n, with the RHS when it is a 1:1 assignment.
func assignedVars(info *types.Info, n ast.Node) (vars []*types.Var, nilAssigned []*types.Var) {
	ast.Inspect(n, func(x ast.Node) bool {
		switch s := x.(type) {
		case *ast.AssignStmt:
			for i, l := range s.Lhs {
				v := VarOf(info, l)
				if v == nil {
					continue
				}
				if len(s.Lhs) == len(s.Rhs) && IsNilIdent(info, s.Rhs[i]) && (s.Tok == token.ASSIGN || s.Tok == token.DEFINE) {
					nilAssigned = append(nilAssigned, v)
				} else {
					vars = append(vars, v)
				}
			}
		case *ast.ValueSpec:
			for i, nm := range s.Names {
				v, _ := info.Defs[nm].(*types.Var)
				if v == nil {
					continue
				}
				if len(s.Values) == 0 {
					// zero value: nil for pointer/interface/etc.
					switch v.Type().Underlying().(type) {
					case *types.Interface, *types.Pointer, *types.Slice, *types.Map, *types.Chan, *types.Signature:
						nilAssigned = append(nilAssigned, v)
					default:
						vars = append(vars, v)
					}
				} else if len(s.Values) == len(s.Names) && IsNilIdent(info, s.Values[i]) {
					nilAssigned = append(nilAssigned, v)
				} else {
					vars = append(vars, v)
				}
			}
		case *ast.UnaryExpr:
			if s.Op == token.AND { // address taken: may be written through the pointer
				if v := VarOf(info, s.X); v != nil {
					vars = append(vars, v)
				}
			}
		}
		return true // descend into function literals too: a closure may assign captured variables
	})
	return vars, nilAssigned
}

// RunNilFlow explores from the successors of node `from` (or from `from`
// itself when inclusive) with the initial set of known-nil variables.
// skipFirstAssign: the start node's own assignments are not applied.
func RunNilFlow(g *Graph, from int, init VarSet, inclusive bool) *NilFlow {
	nf := &NilFlow{G: g, Reached: map[int][]VarSet{}}
	type st struct {
		n int
		s VarSet
	}
	seen := map[string]bool{}
	var stack []st
	push := func(n int, s VarSet) {
		k := itoa(n) + "|" + s.key()
		if seen[k] {
			return
		}
		seen[k] = true
		nf.Reached[n] = append(nf.Reached[n], s)
		stack = append(stack, st{n, s})
	}
	if inclusive {
		push(from, init)
	} else {
		for _, e := range g.Nodes[from].Succs {
			nf.step(from, e, init, push)
		}
	}
	for len(stack) > 0 {
		c := stack[len(stack)-1]
		stack = stack[:len(stack)-1]
		node := g.Nodes[c.n]
		s := c.s
		if node.Ast != nil {
			// a branch condition node does not assign; statements may
			vars, nils := assignedVars(g.Info, node.Ast)
			for _, v := range vars {
				s = s.without(v)
			}
			for _, v := range nils {
				s = s.with(v)
			}
		}
		for _, e := range node.Succs {
			nf.step(c.n, e, s, push)
		}
	}
	return nf
}

func (nf *NilFlow) step(from int, e Edge, s VarSet, push func(int, VarSet)) {
	if e.Cond != nil && e.Tag == nil && e.Branch != 0 {
		var nilVars, nonNil []*types.Var
		edgeFacts(nf.G.Info, e.Cond, e.Branch == 1, &nilVars, &nonNil)
		for _, v := range nonNil {
			if s.Has(v) {
				return // contradiction: edge infeasible given what is known
			}
		}
		for _, v := range nilVars {
			s = s.with(v)
		}
	}
	push(e.To, s)
}

// ErrResultIndex returns the index of the (last) result of type error in the function's signature, or -1.
func ErrResultIndex(sig *types.Signature) int {
	for i := sig.Results().Len() - 1; i >= 0; i-- {
		if types.Identical(sig.Results().At(i).Type(), types.Universe.Lookup("error").Type()) {
			return i
		}
	}
	return -1
}

// SigOf returns the signature of the graph's function.
func (g *Graph) Sig() *types.Signature {
	switch f := g.Fn.(type) {
	case *ast.FuncDecl:
		if o, ok := g.Info.Defs[f.Name].(*types.Func); ok {
			return o.Type().(*types.Signature)
		}
	case *ast.FuncLit:
		if t, ok := g.Info.Types[f].Type.(*types.Signature); ok {
			return t
		}
	}
	return nil
}

// ReturnMayFail reports whether a return statement, reached with the given
// known-nil set, may return a non-nil error. ok=false when the function has no error result.
func (g *Graph) ReturnMayFail(ret *ast.ReturnStmt, known VarSet) (mayFail bool, expr ast.Expr) {
	sig := g.Sig()
	if sig == nil {
		return false, nil
	}
	idx := ErrResultIndex(sig)
	if idx < 0 {
		return false, nil
	}
	if len(ret.Results) == 0 {
		// naked return with named results
		v := sig.Results().At(idx)
		return !known.Has(v), nil
	}
	if len(ret.Results) != sig.Results().Len() {
		// return f() forwarding a tuple
		return true, ret.Results[0]
	}
	e := ret.Results[idx]
	if IsNilIdent(g.Info, e) {
		return false, e
	}
	if v := VarOf(g.Info, e); v != nil && known.Has(v) {
		return false, e
	}
	return true, e
}
