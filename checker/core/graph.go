package core

import (
	"go/ast"
	"go/token"
	"go/types"

	"golang.org/x/tools/go/cfg"
	"golang.org/x/tools/go/types/typeutil"
)

// Graph is a node-level control-flow graph of one function body (FuncDecl or
// FuncLit), derived from go/cfg. Every AST node go/cfg placed in a block is a
// graph node; each block additionally has a synthetic head node so that empty
// blocks keep their identity. A synthetic Exit node collects all returns and
// the fall-off-the-end edge; Panic collects explicit panics / no-return calls.
type Graph struct {
	Fn    ast.Node // *ast.FuncDecl or *ast.FuncLit
	Body  *ast.BlockStmt
	Info  *types.Info
	Owner *FuncInfo
	CFG   *cfg.CFG
	Nodes []*Node
	Entry int
	Exit  int
	Panic int

	head     map[*cfg.Block]int
	switchOf map[ast.Expr]*ast.SwitchStmt // case expression -> its switch
}

// Node is one CFG node.
type Node struct {
	ID    int
	Ast   ast.Node // nil for synthetic nodes
	Block *cfg.Block
	Kind  NodeKind
	Succs []Edge
	Preds []int
}

// NodeKind distinguishes synthetic nodes.
type NodeKind int

const (
	NAst NodeKind = iota
	NHead
	NExit
	NPanic
)

// Edge is a CFG edge. For a two-way branch, Cond is the controlling
// expression and Branch says which way this edge goes. For a tag-switch case
// test, Cond is the case expression and Tag the switch tag (edge true means
// Tag == Cond). Range marks the iterate/done edges of a range loop head.
type Edge struct {
	To     int
	Cond   ast.Expr
	Tag    ast.Expr
	Branch int // 0 unconditional, 1 true, 2 false
	Range  *ast.RangeStmt
}

// GraphOf builds (and caches) the graph of a declared function.
func (p *Program) GraphOf(fi *FuncInfo) *Graph {
	if g := p.graphs[fi.Decl]; g != nil {
		return g
	}
	if fi.Decl.Body == nil {
		return nil
	}
	g := buildGraph(fi.Decl, fi.Decl.Body, fi.Pkg.TypesInfo, fi)
	p.graphs[fi.Decl] = g
	return g
}

// GraphOfLit builds (and caches) the graph of a function literal.
func (p *Program) GraphOfLit(fl *ast.FuncLit) *Graph {
	if g := p.graphs[fl]; g != nil {
		return g
	}
	owner := p.litOwner[fl]
	if owner == nil {
		return nil
	}
	g := buildGraph(fl, fl.Body, owner.Pkg.TypesInfo, owner)
	p.graphs[fl] = g
	return g
}

func isNoReturnCall(info *types.Info, call *ast.CallExpr) bool {
	if id, ok := call.Fun.(*ast.Ident); ok {
		if b, ok := info.Uses[id].(*types.Builtin); ok && b.Name() == "panic" {
			return true
		}
	}
	if fn, ok := typeutil.Callee(info, call).(*types.Func); ok && fn.Pkg() != nil {
		full := fn.Pkg().Path() + "." + fn.Name()
		switch full {
		case "os.Exit", "log.Fatal", "log.Fatalf", "log.Fatalln", "log.Panic", "log.Panicf", "log.Panicln", "runtime.Goexit":
			return true
		}
	}
	return false
}

func buildGraph(fn ast.Node, body *ast.BlockStmt, info *types.Info, owner *FuncInfo) *Graph {
	g := &Graph{Fn: fn, Body: body, Info: info, Owner: owner, head: map[*cfg.Block]int{}, switchOf: map[ast.Expr]*ast.SwitchStmt{}}
	g.CFG = cfg.New(body, func(c *ast.CallExpr) bool { return !isNoReturnCall(info, c) })

	// case expr -> switch
	ast.Inspect(body, func(n ast.Node) bool {
		if fl, ok := n.(*ast.FuncLit); ok && ast.Node(fl) != fn {
			return false
		}
		if sw, ok := n.(*ast.SwitchStmt); ok {
			for _, c := range sw.Body.List {
				for _, e := range c.(*ast.CaseClause).List {
					g.switchOf[e] = sw
				}
			}
		}
		return true
	})

	newNode := func(a ast.Node, b *cfg.Block, k NodeKind) *Node {
		n := &Node{ID: len(g.Nodes), Ast: a, Block: b, Kind: k}
		g.Nodes = append(g.Nodes, n)
		return n
	}
	last := map[*cfg.Block]int{}
	for _, b := range g.CFG.Blocks {
		if !b.Live {
			continue
		}
		h := newNode(nil, b, NHead)
		g.head[b] = h.ID
		prev := h.ID
		for _, a := range b.Nodes {
			n := newNode(a, b, NAst)
			g.Nodes[prev].Succs = append(g.Nodes[prev].Succs, Edge{To: n.ID})
			prev = n.ID
		}
		last[b] = prev
	}
	g.Exit = newNode(nil, nil, NExit).ID
	g.Panic = newNode(nil, nil, NPanic).ID
	g.Entry = g.head[g.CFG.Blocks[0]]

	for _, b := range g.CFG.Blocks {
		if !b.Live {
			continue
		}
		l := g.Nodes[last[b]]
		switch len(b.Succs) {
		case 0:
			// return, panic, or fall off the end
			to := g.Exit
			if l.Ast != nil {
				if es, ok := l.Ast.(*ast.ExprStmt); ok {
					if c, ok := es.X.(*ast.CallExpr); ok && isNoReturnCall(info, c) {
						to = g.Panic
					}
				}
			}
			l.Succs = append(l.Succs, Edge{To: to})
		case 1:
			l.Succs = append(l.Succs, Edge{To: g.head[b.Succs[0]]})
		case 2:
			var cond, tag ast.Expr
			var rng *ast.RangeStmt
			if b.Kind == cfg.KindRangeLoop {
				rng, _ = b.Stmt.(*ast.RangeStmt)
			} else if e, ok := l.Ast.(ast.Expr); ok && l.Kind == NAst {
				cond = e
				if sw := g.switchOf[e]; sw != nil {
					tag = sw.Tag // nil for tagless switch: cond is itself boolean
				}
			}
			l.Succs = append(l.Succs,
				Edge{To: g.head[b.Succs[0]], Cond: cond, Tag: tag, Branch: 1, Range: rng},
				Edge{To: g.head[b.Succs[1]], Cond: cond, Tag: tag, Branch: 2, Range: rng})
		default:
			for _, s := range b.Succs {
				l.Succs = append(l.Succs, Edge{To: g.head[s]})
			}
		}
	}
	for _, n := range g.Nodes {
		for _, e := range n.Succs {
			g.Nodes[e.To].Preds = append(g.Nodes[e.To].Preds, n.ID)
		}
	}
	return g
}

// EdgeRef names one edge of the graph.
type EdgeRef struct {
	From int
	Idx  int
}

// Reach returns the set of nodes reachable from the start nodes without
// entering a node for which avoidNode is true and without following an edge
// for which avoidEdge is true. Start nodes themselves are included (even when
// avoided) but an avoided start is not expanded.
func (g *Graph) Reach(start []int, avoidNode func(int) bool, avoidEdge func(from, idx int, e Edge) bool) map[int]bool {
	seen := map[int]bool{}
	var stack []int
	for _, s := range start {
		if !seen[s] {
			seen[s] = true
			if avoidNode == nil || !avoidNode(s) {
				stack = append(stack, s)
			}
		}
	}
	for len(stack) > 0 {
		n := stack[len(stack)-1]
		stack = stack[:len(stack)-1]
		for i, e := range g.Nodes[n].Succs {
			if avoidEdge != nil && avoidEdge(n, i, e) {
				continue
			}
			if seen[e.To] {
				continue
			}
			seen[e.To] = true
			if avoidNode != nil && avoidNode(e.To) {
				continue
			}
			stack = append(stack, e.To)
		}
	}
	return seen
}

// ReachFromEntry is Reach from the function entry.
func (g *Graph) ReachFromEntry(avoidNode func(int) bool, avoidEdge func(int, int, Edge) bool) map[int]bool {
	return g.Reach([]int{g.Entry}, avoidNode, avoidEdge)
}

// Live returns all nodes reachable from entry.
func (g *Graph) Live() map[int]bool { return g.ReachFromEntry(nil, nil) }

// Dominated reports whether every path from entry to target passes through a
// node of the set (target itself does not count as passing through).
func (g *Graph) Dominated(target int, by map[int]bool) bool {
	if by[g.Entry] {
		return true
	}
	r := g.ReachFromEntry(func(n int) bool { return by[n] }, nil)
	return !r[target]
}

// DominatedByEdges reports whether every path from entry to target uses one of the given edges.
func (g *Graph) DominatedByEdges(target int, edges map[EdgeRef]bool) bool {
	r := g.ReachFromEntry(nil, func(from, idx int, e Edge) bool { return edges[EdgeRef{from, idx}] })
	return !r[target]
}

// Inspect walks the AST of node n without descending into function literals
// (unless the node itself is the literal).
func InspectShallow(n ast.Node, f func(ast.Node) bool) {
	if n == nil {
		return
	}
	ast.Inspect(n, func(x ast.Node) bool {
		if x == nil {
			return false
		}
		if fl, ok := x.(*ast.FuncLit); ok && ast.Node(fl) != n {
			f(x) // report the literal itself, but do not descend
			return false
		}
		return f(x)
	})
}

// FindNodes returns the IDs of live graph nodes whose AST contains a sub-node matching pred.
func (g *Graph) FindNodes(pred func(ast.Node) bool) []int {
	live := g.Live()
	var out []int
	for _, n := range g.Nodes {
		if n.Ast == nil || !live[n.ID] {
			continue
		}
		found := false
		InspectShallow(n.Ast, func(x ast.Node) bool {
			if found {
				return false
			}
			if pred(x) {
				found = true
				return false
			}
			return true
		})
		if found {
			out = append(out, n.ID)
		}
	}
	return out
}

// NodeSet turns a slice of IDs into a set.
func NodeSet(ids []int) map[int]bool {
	m := map[int]bool{}
	for _, i := range ids {
		m[i] = true
	}
	return m
}

// Returns lists the live ReturnStmt nodes.
func (g *Graph) Returns() []int {
	return g.FindNodes(func(n ast.Node) bool { _, ok := n.(*ast.ReturnStmt); return ok })
}

// PosOf returns a position for a node (synthetic nodes map to the function end).
func (g *Graph) PosOf(id int) token.Pos {
	n := g.Nodes[id]
	if n.Ast != nil {
		return n.Ast.Pos()
	}
	if n.Block != nil && n.Block.Stmt != nil {
		return n.Block.Stmt.Pos()
	}
	return g.Body.Rbrace
}

// Callee resolves the static callee of a call (nil for dynamic calls, conversions, builtins).
func Callee(info *types.Info, call *ast.CallExpr) *types.Func {
	fn, _ := typeutil.Callee(info, call).(*types.Func)
	if fn != nil {
		return fn.Origin()
	}
	return nil
}

// CallsIn lists the call expressions inside n (not descending into function literals).
func CallsIn(n ast.Node) []*ast.CallExpr {
	var out []*ast.CallExpr
	InspectShallow(n, func(x ast.Node) bool {
		if c, ok := x.(*ast.CallExpr); ok {
			out = append(out, c)
		}
		return true
	})
	return out
}

// IsCallTo reports whether node x is a call whose resolved callee is fn.
func IsCallTo(info *types.Info, x ast.Node, fn *types.Func) bool {
	c, ok := x.(*ast.CallExpr)
	return ok && fn != nil && Callee(info, c) == fn.Origin()
}

// FieldOf returns the struct field a selector expression resolves to (nil if not a field selection).
func FieldOf(info *types.Info, e ast.Expr) *types.Var {
	se, ok := ast.Unparen(e).(*ast.SelectorExpr)
	if !ok {
		return nil
	}
	if sel := info.Selections[se]; sel != nil && sel.Kind() == types.FieldVal {
		v, _ := sel.Obj().(*types.Var)
		return v
	}
	return nil
}

// VarOf returns the variable an identifier expression denotes.
func VarOf(info *types.Info, e ast.Expr) *types.Var {
	id, ok := ast.Unparen(e).(*ast.Ident)
	if !ok {
		return nil
	}
	if v, ok := info.Uses[id].(*types.Var); ok {
		return v
	}
	if v, ok := info.Defs[id].(*types.Var); ok {
		return v
	}
	return nil
}

// IsNilIdent reports whether e is the predeclared nil.
func IsNilIdent(info *types.Info, e ast.Expr) bool {
	id, ok := ast.Unparen(e).(*ast.Ident)
	if !ok {
		return false
	}
	_, isNil := info.Uses[id].(*types.Nil)
	return isNil
}

// FieldWrites returns, for the given node, the fields written by assignments,
// inc/dec statements (not descending into literals). Each entry is the LHS expression.
func AssignTargets(n ast.Node) []ast.Expr {
	var out []ast.Expr
	InspectShallow(n, func(x ast.Node) bool {
		switch s := x.(type) {
		case *ast.AssignStmt:
			out = append(out, s.Lhs...)
		case *ast.IncDecStmt:
			out = append(out, s.X)
		case *ast.RangeStmt:
			// Key/Value are separate nodes in the graph
		}
		return true
	})
	return out
}
