package core

import (
	"fmt"
	"go/ast"
	"go/constant"
	"go/token"
	"go/types"
	"math/big"
	"strings"
)

// Engine E1 (byte-predicate part): three-valued evaluation of side-effect-free
// integer / boolean / byte-slice code of the analysed program under a finite
// binding of its inputs. It is used to tabulate small pure functions over an
// exhaustively enumerated finite domain (all 256 values of a header byte, all
// 32 NAL types, ...): the table is the function's meaning for every input.
//
// The evaluator interprets the type-checked AST over the node graph. A value
// is a constant, a window into a named input byte array, a reference to an
// access path, a modelled library object, or Unknown. Anything outside the
// modelled fragment evaluates to Unknown; a branch on Unknown stops the walk
// with outcome "unknown" (the caller reports UNDECIDED) - the evaluator never
// guesses. No code of the analysed program is compiled or run.
//
// Modelled library semantics (trusted, listed in the reports): len, min, max;
// bytes.NewReader(b); encoding/binary.Read(r, order, &v) for fixed-size
// unsigned integers (error iff fewer bytes remain than the size of v).

// EKind classifies an EVal.
type EKind int

const (
	EUnknown EKind = iota
	EConst         // C holds an int/bool/string constant of type T
	ESlice         // window [Off, Off+Len) of input array Base (LenKnown false: open length)
	ERef           // reference to an access path (struct value or pointer to one): Path
	EPtrVar        // pointer to a local variable
	ENil           // untyped nil / nil error
	ENonNil        // a non-nil error / pointer whose identity does not matter
	EReader        // *bytes.Reader over a window
	EOrder         // binary.BigEndian / binary.LittleEndian
	ETuple
)

// EVal is an abstract value.
type EVal struct {
	K        EKind
	C        constant.Value
	T        types.Type
	Base     string
	Off, Len int64
	LenKnown bool
	Path     string
	Var      *types.Var
	Rd       *eReader
	Order    string
	Elems    []EVal
	Why      string
}

type eReader struct {
	win EVal
	pos int64
}

func (v EVal) String() string {
	switch v.K {
	case EConst:
		return v.C.ExactString()
	case ESlice:
		if v.LenKnown {
			return fmt.Sprintf("%s[%d:%d]", v.Base, v.Off, v.Off+v.Len)
		}
		return fmt.Sprintf("%s[%d:]", v.Base, v.Off)
	case ERef:
		return "&" + v.Path
	case ENil:
		return "nil"
	case ENonNil:
		return "non-nil"
	case ETuple:
		var s []string
		for _, e := range v.Elems {
			s = append(s, e.String())
		}
		return "(" + strings.Join(s, ", ") + ")"
	case EUnknown:
		return "unknown(" + v.Why + ")"
	}
	return fmt.Sprintf("val#%d", v.K)
}

// EUnk makes an Unknown with a reason.
func EUnk(why string) EVal { return EVal{K: EUnknown, Why: why} }

// EInt makes an integer constant of type t.
func EInt(i int64, t types.Type) EVal { return EVal{K: EConst, C: constant.MakeInt64(i), T: t} }

// EBool makes a boolean constant.
func EBool(b bool) EVal { return EVal{K: EConst, C: constant.MakeBool(b), T: types.Typ[types.Bool]} }

// EBytes makes a window over input array base with the given length (n<0: unknown length).
func EBytes(base string, n int64) EVal {
	return EVal{K: ESlice, Base: base, Len: max(n, 0), LenKnown: n >= 0}
}

// IsTrue / IsFalse / Int64 accessors.
func (v EVal) IsTrue() bool {
	return v.K == EConst && v.C.Kind() == constant.Bool && constant.BoolVal(v.C)
}
func (v EVal) IsFalse() bool {
	return v.K == EConst && v.C.Kind() == constant.Bool && !constant.BoolVal(v.C)
}
func (v EVal) Int64() (int64, bool) {
	if v.K != EConst || v.C.Kind() != constant.Int {
		return 0, false
	}
	return constant.Int64Val(v.C)
}

// Evaluator holds the input binding of one evaluation.
type Evaluator struct {
	P *Program
	// Byte returns byte idx of input array base; ok=false makes the byte Unknown.
	Byte func(base string, idx int64) (uint8, bool)
	// Path returns the value bound to an access path ("recv.includeSEI", "recv.Data"); ok=false: a fresh reference.
	Path func(path string) (EVal, bool)
	// Intercept lets a rule handle a statement/expression node itself (return true when handled).
	Intercept func(fr *Frame, n ast.Node) bool
	// Expr lets a rule bind the value of a specific sub-expression (checked before normal evaluation).
	Expr func(e ast.Expr) (EVal, bool)
	// LocalDef supplies the unique defining expression of a local that is not bound in the frame
	// (region evaluation: the rule starts in the middle of a function).
	LocalDef func(v *types.Var) ast.Expr
	Fuel     int
	Stores   map[string]EVal // writes to access paths, in evaluation order the last one wins
	depth    int
}

// Frame is one function activation.
type Frame struct {
	Ev     *Evaluator
	G      *Graph
	Locals map[*types.Var]EVal
	lazy   int
}

// RunOutcome is the result of walking a graph.
type RunOutcome struct {
	Kind    string // "return", "stopped", "unknown", "panic", "fuel", "exit"
	Results []EVal
	At      int
	Why     string
}

// NewFrame starts an activation on g.
func (ev *Evaluator) NewFrame(g *Graph) *Frame {
	if ev.Stores == nil {
		ev.Stores = map[string]EVal{}
	}
	return &Frame{Ev: ev, G: g, Locals: map[*types.Var]EVal{}}
}

// Call evaluates function fi with the given receiver and arguments.
func (ev *Evaluator) Call(fi *FuncInfo, recv EVal, args []EVal) RunOutcome {
	g := ev.P.GraphOf(fi)
	if g == nil {
		return RunOutcome{Kind: "unknown", Why: "no body: " + fi.Name()}
	}
	if ev.depth > 8 {
		return RunOutcome{Kind: "unknown", Why: "call depth"}
	}
	fr := ev.NewFrame(g)
	sig := fi.Obj.Type().(*types.Signature)
	if sig.Recv() != nil {
		fr.Locals[sig.Recv()] = recv
	}
	for i := 0; i < sig.Params().Len(); i++ {
		if i < len(args) && !(sig.Variadic() && i == sig.Params().Len()-1) {
			fr.Locals[sig.Params().At(i)] = args[i]
		} else {
			fr.Locals[sig.Params().At(i)] = EUnk("variadic/unbound parameter")
		}
	}
	for i := 0; i < sig.Results().Len(); i++ {
		if r := sig.Results().At(i); r.Name() != "" {
			fr.Locals[r] = zeroEVal(r.Type())
		}
	}
	ev.depth++
	out := fr.Run(g.Entry, nil)
	ev.depth--
	if out.Kind == "exit" {
		// fell off the end / naked return: named results
		out.Kind = "return"
		for i := 0; i < sig.Results().Len(); i++ {
			out.Results = append(out.Results, fr.Locals[sig.Results().At(i)])
		}
	}
	return out
}

func zeroEVal(t types.Type) EVal {
	switch u := t.Underlying().(type) {
	case *types.Basic:
		switch {
		case u.Info()&types.IsBoolean != 0:
			return EVal{K: EConst, C: constant.MakeBool(false), T: t}
		case u.Info()&types.IsInteger != 0:
			return EVal{K: EConst, C: constant.MakeInt64(0), T: t}
		case u.Info()&types.IsString != 0:
			return EVal{K: EConst, C: constant.MakeString(""), T: t}
		}
	case *types.Pointer, *types.Interface, *types.Slice, *types.Map, *types.Chan, *types.Signature:
		return EVal{K: ENil}
	}
	return EUnk("zero value of " + t.String())
}

// Run walks the graph from node start, executing statements and following the
// branch edges the evaluated conditions select. It stops at a return, at the
// graph exit, when stop(node) is true, or when a condition is Unknown.
func (fr *Frame) Run(start int, stop func(n int) bool) RunOutcome {
	g := fr.G
	ev := fr.Ev
	n := start
	first := true
	for {
		if ev.Fuel <= 0 {
			return RunOutcome{Kind: "fuel", At: n, Why: "evaluation budget exhausted (unbounded loop?)"}
		}
		ev.Fuel--
		if !first && stop != nil && stop(n) {
			return RunOutcome{Kind: "stopped", At: n}
		}
		first = false
		node := g.Nodes[n]
		switch node.Kind {
		case NExit:
			return RunOutcome{Kind: "exit", At: n}
		case NPanic:
			return RunOutcome{Kind: "panic", At: n, Why: "explicit panic"}
		}
		var condVal EVal
		isCond := false
		if node.Ast != nil {
			if ev.Intercept != nil && ev.Intercept(fr, node.Ast) {
				// handled by the rule
			} else {
				switch s := node.Ast.(type) {
				case *ast.ReturnStmt:
					var res []EVal
					for _, e := range s.Results {
						v := fr.Eval(e)
						if v.K == ETuple {
							res = append(res, v.Elems...)
						} else {
							res = append(res, v)
						}
					}
					for _, v := range res {
						if v.K == EUnknown && strings.HasPrefix(v.Why, "panic:") {
							return RunOutcome{Kind: "panic", At: n, Why: v.Why}
						}
					}
					if len(s.Results) == 0 {
						return RunOutcome{Kind: "exit", At: n}
					}
					return RunOutcome{Kind: "return", Results: res, At: n}
				case ast.Expr:
					condVal = fr.Eval(s)
					isCond = true
				case ast.Stmt:
					if why := fr.exec(s); why != "" {
						if strings.HasPrefix(why, "panic:") {
							return RunOutcome{Kind: "panic", At: n, Why: why}
						}
						return RunOutcome{Kind: "unknown", At: n, Why: why}
					}
				case *ast.ValueSpec:
					if why := fr.execSpec(s); why != "" {
						return RunOutcome{Kind: "unknown", At: n, Why: why}
					}
				default:
					return RunOutcome{Kind: "unknown", At: n, Why: fmt.Sprintf("unsupported node %T", s)}
				}
			}
		}
		switch len(node.Succs) {
		case 0:
			return RunOutcome{Kind: "exit", At: n}
		case 1:
			n = node.Succs[0].To
			continue
		}
		// branch
		e0 := node.Succs[0]
		if e0.Range != nil {
			return RunOutcome{Kind: "unknown", At: n, Why: "range loop"}
		}
		if len(node.Succs) != 2 || e0.Cond == nil || !isCond {
			return RunOutcome{Kind: "unknown", At: n, Why: "multi-way branch without condition"}
		}
		truth := condVal
		if e0.Tag != nil {
			truth = fr.compare(token.EQL, fr.Eval(e0.Tag), condVal)
		}
		if strings.HasPrefix(truth.Why, "panic:") {
			return RunOutcome{Kind: "panic", At: n, Why: truth.Why}
		}
		switch {
		case truth.IsTrue():
			n = pickBranch(node.Succs, 1)
		case truth.IsFalse():
			n = pickBranch(node.Succs, 2)
		default:
			return RunOutcome{Kind: "unknown", At: n, Why: "branch on " + types.ExprString(e0.Cond) + ": " + truth.String()}
		}
	}
}

func pickBranch(es []Edge, br int) int {
	for _, e := range es {
		if e.Branch == br {
			return e.To
		}
	}
	return es[0].To
}

func (fr *Frame) execSpec(s *ast.ValueSpec) string {
	info := fr.G.Info
	for i, nm := range s.Names {
		v, _ := info.Defs[nm].(*types.Var)
		if v == nil {
			continue
		}
		switch {
		case len(s.Values) == len(s.Names):
			fr.Locals[v] = fr.Eval(s.Values[i])
		case len(s.Values) == 0:
			fr.Locals[v] = zeroEVal(v.Type())
		default:
			fr.Locals[v] = EUnk("multi-value var")
		}
	}
	return ""
}

// exec executes one statement; a non-empty result is the reason the walk cannot continue.
func (fr *Frame) exec(s ast.Stmt) string {
	switch x := s.(type) {
	case *ast.AssignStmt:
		if x.Tok != token.ASSIGN && x.Tok != token.DEFINE {
			op := map[token.Token]token.Token{token.ADD_ASSIGN: token.ADD, token.SUB_ASSIGN: token.SUB, token.MUL_ASSIGN: token.MUL,
				token.QUO_ASSIGN: token.QUO, token.REM_ASSIGN: token.REM, token.AND_ASSIGN: token.AND, token.OR_ASSIGN: token.OR,
				token.XOR_ASSIGN: token.XOR, token.SHL_ASSIGN: token.SHL, token.SHR_ASSIGN: token.SHR, token.AND_NOT_ASSIGN: token.AND_NOT}[x.Tok]
			v := fr.binop(op, fr.Eval(x.Lhs[0]), fr.Eval(x.Rhs[0]), fr.G.Info.TypeOf(x.Lhs[0]))
			if strings.HasPrefix(v.Why, "panic:") {
				return v.Why
			}
			return fr.assign(x.Lhs[0], v)
		}
		if len(x.Lhs) == len(x.Rhs) {
			vals := make([]EVal, len(x.Rhs))
			for i, r := range x.Rhs {
				vals[i] = fr.Eval(r)
				if strings.HasPrefix(vals[i].Why, "panic:") {
					return vals[i].Why
				}
			}
			for i, l := range x.Lhs {
				if why := fr.assign(l, vals[i]); why != "" {
					return why
				}
			}
			return ""
		}
		if len(x.Rhs) == 1 {
			v := fr.Eval(x.Rhs[0])
			if strings.HasPrefix(v.Why, "panic:") {
				return v.Why
			}
			for i, l := range x.Lhs {
				ev := EUnk("component of " + v.String())
				if v.K == ETuple && i < len(v.Elems) {
					ev = v.Elems[i]
				}
				if why := fr.assign(l, ev); why != "" {
					return why
				}
			}
			return ""
		}
		return "unsupported assignment shape"
	case *ast.IncDecStmt:
		op := token.ADD
		if x.Tok == token.DEC {
			op = token.SUB
		}
		t := fr.G.Info.TypeOf(x.X)
		return fr.assign(x.X, fr.binop(op, fr.Eval(x.X), EInt(1, t), t))
	case *ast.ExprStmt:
		v := fr.Eval(x.X)
		if strings.HasPrefix(v.Why, "panic:") {
			return v.Why
		}
		return ""
	case *ast.DeclStmt, *ast.EmptyStmt, *ast.LabeledStmt, *ast.BranchStmt:
		return ""
	}
	return fmt.Sprintf("unsupported statement %T", s)
}

func (fr *Frame) assign(lhs ast.Expr, v EVal) string {
	info := fr.G.Info
	lhs = ast.Unparen(lhs)
	switch l := lhs.(type) {
	case *ast.Ident:
		if l.Name == "_" {
			return ""
		}
		if obj := VarOf(info, l); obj != nil {
			if obj.Pkg() != nil && obj.Parent() == obj.Pkg().Scope() {
				return "store to package variable " + obj.Name()
			}
			fr.Locals[obj] = v
			return ""
		}
	case *ast.SelectorExpr:
		if p := fr.pathOf(l); p != "" {
			fr.Ev.Stores[p] = v
			return ""
		}
	case *ast.StarExpr:
		pv := fr.Eval(l.X)
		if pv.K == EPtrVar {
			fr.Locals[pv.Var] = v
			return ""
		}
	}
	return "unsupported store target " + types.ExprString(lhs)
}

// pathOf returns the access path of a selector chain rooted in a reference value.
func (fr *Frame) pathOf(e ast.Expr) string {
	info := fr.G.Info
	e = ast.Unparen(e)
	switch x := e.(type) {
	case *ast.Ident:
		if v := VarOf(info, x); v != nil {
			if val, ok := fr.Locals[v]; ok && val.K == ERef {
				return val.Path
			}
		}
	case *ast.SelectorExpr:
		if sel := info.Selections[x]; sel != nil && sel.Kind() == types.FieldVal {
			if b := fr.pathOf(x.X); b != "" {
				return b + "." + x.Sel.Name
			}
		}
	case *ast.StarExpr:
		return fr.pathOf(x.X)
	case *ast.UnaryExpr:
		if x.Op == token.AND {
			return fr.pathOf(x.X)
		}
	}
	return ""
}

func (fr *Frame) readPath(p string, t types.Type) EVal {
	if v, ok := fr.Ev.Stores[p]; ok {
		return v
	}
	if fr.Ev.Path != nil {
		if v, ok := fr.Ev.Path(p); ok {
			return v
		}
	}
	if t != nil {
		switch t.Underlying().(type) {
		case *types.Struct, *types.Pointer:
			return EVal{K: ERef, Path: p, T: t}
		}
	}
	return EUnk("unbound " + p)
}

// Eval evaluates an expression in the frame.
func (fr *Frame) Eval(e ast.Expr) EVal {
	info := fr.G.Info
	if tv, ok := info.Types[e]; ok && tv.Value != nil {
		return EVal{K: EConst, C: tv.Value, T: tv.Type}
	}
	if fr.Ev.Expr != nil {
		if v, ok := fr.Ev.Expr(e); ok {
			return v
		}
	}
	switch x := e.(type) {
	case *ast.ParenExpr:
		return fr.Eval(x.X)
	case *ast.Ident:
		switch obj := info.Uses[x].(type) {
		case *types.Nil:
			return EVal{K: ENil}
		case *types.Const:
			return EVal{K: EConst, C: obj.Val(), T: obj.Type()}
		case *types.Var:
			if obj.Pkg() != nil && obj.Parent() == obj.Pkg().Scope() {
				if types.Identical(obj.Type(), types.Universe.Lookup("error").Type()) {
					return EVal{K: ENonNil, Why: obj.Name()}
				}
				return EUnk("package variable " + obj.Name())
			}
			if v, ok := fr.Locals[obj]; ok {
				return v
			}
			if fr.Ev.LocalDef != nil && fr.lazy < 6 {
				if d := fr.Ev.LocalDef(obj); d != nil {
					fr.lazy++
					v := fr.Eval(d)
					fr.lazy--
					return v
				}
			}
			return EUnk("unbound local " + obj.Name())
		}
		if obj, ok := info.Defs[x].(*types.Var); ok {
			if v, ok := fr.Locals[obj]; ok {
				return v
			}
		}
		return EUnk("identifier " + x.Name)
	case *ast.SelectorExpr:
		if sel := info.Selections[x]; sel != nil {
			if sel.Kind() == types.FieldVal {
				if p := fr.pathOf(x); p != "" {
					return fr.readPath(p, sel.Type())
				}
				return EUnk("field of non-reference " + types.ExprString(x))
			}
			return EUnk("method value")
		}
		// qualified identifier
		if obj, ok := info.Uses[x.Sel].(*types.Var); ok && obj.Pkg() != nil {
			full := obj.Pkg().Path() + "." + obj.Name()
			switch full {
			case "encoding/binary.BigEndian":
				return EVal{K: EOrder, Order: "BE"}
			case "encoding/binary.LittleEndian":
				return EVal{K: EOrder, Order: "LE"}
			}
			if types.Identical(obj.Type(), types.Universe.Lookup("error").Type()) {
				return EVal{K: ENonNil, Why: full}
			}
			return EUnk("package variable " + full)
		}
		return EUnk("selector")
	case *ast.StarExpr:
		v := fr.Eval(x.X)
		switch v.K {
		case EPtrVar:
			if lv, ok := fr.Locals[v.Var]; ok {
				return lv
			}
		case ERef:
			return v
		}
		return EUnk("dereference")
	case *ast.UnaryExpr:
		switch x.Op {
		case token.AND:
			if id, ok := ast.Unparen(x.X).(*ast.Ident); ok {
				if v := VarOf(info, id); v != nil {
					if lv, ok := fr.Locals[v]; ok && lv.K == ERef {
						return lv
					}
					return EVal{K: EPtrVar, Var: v}
				}
			}
			if p := fr.pathOf(x.X); p != "" {
				return EVal{K: ERef, Path: p, T: info.TypeOf(x)}
			}
			return EVal{K: ENonNil, Why: "address"}
		case token.NOT:
			v := fr.Eval(x.X)
			switch {
			case v.IsTrue():
				return EBool(false)
			case v.IsFalse():
				return EBool(true)
			}
			return v
		case token.SUB, token.XOR, token.ADD:
			v := fr.Eval(x.X)
			if v.K == EConst && v.C.Kind() == constant.Int {
				return wrapEVal(EVal{K: EConst, C: constant.UnaryOp(x.Op, v.C, 0), T: info.TypeOf(x)})
			}
			return v
		}
		return EUnk("unary " + x.Op.String())
	case *ast.BinaryExpr:
		switch x.Op {
		case token.LAND, token.LOR:
			l := fr.Eval(x.X)
			if x.Op == token.LAND && l.IsFalse() || x.Op == token.LOR && l.IsTrue() {
				return l
			}
			r := fr.Eval(x.Y)
			if l.IsTrue() || l.IsFalse() {
				return r
			}
			// left unknown: the result is decided only when the right operand absorbs
			if x.Op == token.LAND && r.IsFalse() || x.Op == token.LOR && r.IsTrue() {
				if !strings.HasPrefix(l.Why, "panic:") {
					return r
				}
			}
			return l
		case token.EQL, token.NEQ, token.LSS, token.LEQ, token.GTR, token.GEQ:
			return fr.compare(x.Op, fr.Eval(x.X), fr.Eval(x.Y))
		}
		return fr.binop(x.Op, fr.Eval(x.X), fr.Eval(x.Y), info.TypeOf(x))
	case *ast.IndexExpr:
		return fr.index(fr.Eval(x.X), fr.Eval(x.Index), info.TypeOf(x))
	case *ast.SliceExpr:
		b := fr.Eval(x.X)
		if b.K != ESlice {
			return EUnk("slice of " + b.String())
		}
		lo, hi := int64(0), int64(-1)
		if x.Low != nil {
			v, ok := fr.Eval(x.Low).Int64()
			if !ok {
				return EUnk("non-constant slice bound")
			}
			lo = v
		}
		if x.High != nil {
			v, ok := fr.Eval(x.High).Int64()
			if !ok {
				return EUnk("non-constant slice bound")
			}
			hi = v
		}
		if hi < 0 {
			if !b.LenKnown {
				return EVal{K: ESlice, Base: b.Base, Off: b.Off + lo}
			}
			hi = b.Len
		}
		if lo < 0 || hi < lo || (b.LenKnown && hi > b.Len) {
			// (capacity is not modelled: slicing beyond len is treated as a panic)
			return EUnk(fmt.Sprintf("panic: slice bounds [%d:%d] with length %d", lo, hi, b.Len))
		}
		return EVal{K: ESlice, Base: b.Base, Off: b.Off + lo, Len: hi - lo, LenKnown: true}
	case *ast.CallExpr:
		return fr.call(x)
	case *ast.CompositeLit:
		return EUnk("composite literal")
	}
	return EUnk(fmt.Sprintf("%T", e))
}

func (fr *Frame) index(b, i EVal, t types.Type) EVal {
	if b.K != ESlice {
		return EUnk("index of " + b.String())
	}
	idx, ok := i.Int64()
	if !ok {
		return EUnk("non-constant index")
	}
	if idx < 0 || (b.LenKnown && idx >= b.Len) {
		return EUnk(fmt.Sprintf("panic: index %d out of range with length %d", idx, b.Len))
	}
	if fr.Ev.Byte != nil {
		if v, ok := fr.Ev.Byte(b.Base, b.Off+idx); ok {
			return EInt(int64(v), t)
		}
	}
	return EUnk(fmt.Sprintf("%s[%d]", b.Base, b.Off+idx))
}

func (fr *Frame) compare(op token.Token, a, b EVal) EVal {
	for _, v := range []EVal{a, b} {
		if strings.HasPrefix(v.Why, "panic:") {
			return v
		}
	}
	if a.K == EConst && b.K == EConst {
		ka, kb := a.C.Kind(), b.C.Kind()
		if ka == kb || (ka != constant.Bool && kb != constant.Bool && ka != constant.String && kb != constant.String) {
			return EBool(constant.Compare(a.C, op, b.C))
		}
	}
	nilness := func(v EVal) int {
		switch v.K {
		case ENil:
			return 0
		case ENonNil, ERef, EPtrVar, EReader:
			return 1
		}
		return -1
	}
	if (a.K == ENil || b.K == ENil) && (op == token.EQL || op == token.NEQ) {
		na, nb := nilness(a), nilness(b)
		if na >= 0 && nb >= 0 {
			return EBool((na == nb) == (op == token.EQL))
		}
	}
	if a.K == EUnknown {
		return a
	}
	if b.K == EUnknown {
		return b
	}
	return EUnk("comparison of " + a.String() + " and " + b.String())
}

func (fr *Frame) binop(op token.Token, a, b EVal, t types.Type) (res EVal) {
	for _, v := range []EVal{a, b} {
		if v.K != EConst {
			if v.K == EUnknown {
				return v
			}
			return EUnk("arithmetic on " + v.String())
		}
	}
	defer func() {
		if recover() != nil {
			res = EUnk("constant operation failed")
		}
	}()
	switch op {
	case token.SHL, token.SHR:
		n, ok := constant.Uint64Val(b.C)
		if !ok || n > 64 {
			return EUnk("shift count")
		}
		// shift in the type of the left operand
		lt := a.T
		if lt == nil || isUntyped(lt) {
			lt = t
		}
		return wrapEVal(EVal{K: EConst, C: constant.Shift(a.C, op, uint(n)), T: lt})
	case token.QUO, token.REM:
		if b.C.Kind() == constant.Int && constant.Sign(b.C) == 0 {
			return EUnk("panic: integer divide by zero")
		}
		if op == token.QUO && a.C.Kind() == constant.Int && b.C.Kind() == constant.Int {
			return wrapEVal(EVal{K: EConst, C: constant.BinaryOp(a.C, token.QUO_ASSIGN, b.C), T: t})
		}
	}
	return wrapEVal(EVal{K: EConst, C: constant.BinaryOp(a.C, op, b.C), T: t})
}

func isUntyped(t types.Type) bool {
	b, ok := t.(*types.Basic)
	return ok && b.Info()&types.IsUntyped != 0
}

// wrapEVal truncates an integer constant to the width of its basic type.
func wrapEVal(v EVal) EVal {
	if v.K != EConst || v.T == nil || v.C.Kind() != constant.Int {
		return v
	}
	b, ok := v.T.Underlying().(*types.Basic)
	if !ok || b.Info()&types.IsInteger == 0 || b.Info()&types.IsUntyped != 0 {
		return v
	}
	tr, ok := TypeRange(v.T, false)
	if !ok {
		return v
	}
	bv := bigOf(v.C)
	if bv == nil {
		return v
	}
	if bv.Cmp(tr.Lo) >= 0 && bv.Cmp(tr.Hi) <= 0 {
		return v
	}
	one := big.NewInt(1)
	mod := new(big.Int).Sub(tr.Hi, tr.Lo)
	mod.Add(mod, one)
	r := new(big.Int).Sub(bv, tr.Lo)
	r.Mod(r, mod)
	r.Add(r, tr.Lo)
	return EVal{K: EConst, C: constant.Make(r), T: v.T}
}

func (fr *Frame) convert(v EVal, t types.Type) EVal {
	if v.K != EConst {
		if v.K == ESlice {
			return v // []byte(x), named slice types
		}
		return v
	}
	switch u := t.Underlying().(type) {
	case *types.Basic:
		if u.Info()&types.IsInteger != 0 && v.C.Kind() == constant.Int {
			return wrapEVal(EVal{K: EConst, C: v.C, T: t})
		}
		if u.Info()&types.IsInteger != 0 && v.C.Kind() == constant.Float {
			return EUnk("float conversion")
		}
		if u.Info()&types.IsString != 0 && v.C.Kind() == constant.String {
			return EVal{K: EConst, C: v.C, T: t}
		}
		if u.Info()&types.IsBoolean != 0 {
			return EVal{K: EConst, C: v.C, T: t}
		}
	}
	return EUnk("conversion to " + t.String())
}

func (fr *Frame) call(x *ast.CallExpr) EVal {
	info := fr.G.Info
	fun := ast.Unparen(x.Fun)
	if tv, ok := info.Types[fun]; ok && tv.IsType() {
		if len(x.Args) != 1 {
			return EUnk("conversion arity")
		}
		return fr.convert(fr.Eval(x.Args[0]), tv.Type)
	}
	if id, ok := fun.(*ast.Ident); ok {
		if b, ok := info.Uses[id].(*types.Builtin); ok {
			switch b.Name() {
			case "len":
				v := fr.Eval(x.Args[0])
				switch {
				case v.K == ESlice && v.LenKnown:
					return EInt(v.Len, types.Typ[types.Int])
				case v.K == EConst && v.C.Kind() == constant.String:
					return EInt(int64(len(constant.StringVal(v.C))), types.Typ[types.Int])
				case v.K == ENil:
					return EInt(0, types.Typ[types.Int])
				}
				return EUnk("len of " + v.String())
			case "min", "max":
				var best EVal
				for i, a := range x.Args {
					v := fr.Eval(a)
					if v.K != EConst {
						return EUnk(b.Name() + " of non-constant")
					}
					if i == 0 {
						best = v
						continue
					}
					less := constant.Compare(v.C, token.LSS, best.C)
					if (b.Name() == "min") == less {
						best = v
					}
				}
				return best
			}
			return EUnk("builtin " + b.Name())
		}
	}
	callee := Callee(info, x)
	if callee == nil {
		return EUnk("dynamic call " + types.ExprString(x.Fun))
	}
	pkgPath := ""
	if callee.Pkg() != nil {
		pkgPath = callee.Pkg().Path()
	}
	// receiver
	var recv EVal
	if sel, ok := fun.(*ast.SelectorExpr); ok {
		if s := info.Selections[sel]; s != nil && s.Kind() == types.MethodVal {
			recv = fr.Eval(sel.X)
			if recv.K != ERef {
				if p := fr.pathOf(sel.X); p != "" {
					recv = EVal{K: ERef, Path: p}
				}
			}
		}
	}
	args := make([]EVal, len(x.Args))
	for i, a := range x.Args {
		args[i] = fr.Eval(a)
	}
	switch pkgPath + "." + callee.Name() {
	case "bytes.NewReader":
		if len(args) == 1 && args[0].K == ESlice {
			return EVal{K: EReader, Rd: &eReader{win: args[0]}}
		}
		return EUnk("bytes.NewReader of " + args[0].String())
	case "encoding/binary.Read":
		return fr.binaryRead(x, args)
	case "errors.New", "fmt.Errorf":
		return EVal{K: ENonNil, Why: "error"}
	}
	if fi := fr.Ev.P.DeclOf(callee); fi != nil && fi.Decl.Body != nil {
		out := fr.Ev.Call(fi, recv, args)
		switch out.Kind {
		case "return":
			switch len(out.Results) {
			case 0:
				return EVal{K: ETuple}
			case 1:
				return out.Results[0]
			}
			return EVal{K: ETuple, Elems: out.Results}
		case "panic":
			why := out.Why
			if !strings.HasPrefix(why, "panic:") {
				why = "panic: " + why
			}
			return EUnk(why)
		}
		return EUnk(FuncName(callee) + ": " + out.Why)
	}
	return EUnk("call to " + pkgPath + "." + callee.Name())
}

// binaryRead models encoding/binary.Read(r, order, &v) for v of a fixed-size unsigned integer type.
func (fr *Frame) binaryRead(x *ast.CallExpr, args []EVal) EVal {
	if len(args) != 3 || args[0].K != EReader || args[1].K != EOrder || args[2].K != EPtrVar {
		return EUnk("binary.Read with unmodelled arguments")
	}
	rd := args[0].Rd
	v := args[2].Var
	tr, ok := TypeRange(v.Type(), false)
	bt, isBasic := v.Type().Underlying().(*types.Basic)
	if !ok || !isBasic || bt.Info()&types.IsUnsigned == 0 {
		return EUnk("binary.Read into " + v.Type().String())
	}
	size := int64(tr.Hi.BitLen() / 8)
	if !rd.win.LenKnown {
		return EUnk("binary.Read from a window of unknown length")
	}
	if rd.win.Len-rd.pos < size {
		rd.pos = rd.win.Len
		return EVal{K: ENonNil, Why: "io.EOF/io.ErrUnexpectedEOF"}
	}
	val := constant.MakeInt64(0)
	known := true
	for i := int64(0); i < size; i++ {
		b, ok := uint8(0), false
		if fr.Ev.Byte != nil {
			b, ok = fr.Ev.Byte(rd.win.Base, rd.win.Off+rd.pos+i)
		}
		if !ok {
			known = false
			break
		}
		sh := uint(8 * (size - 1 - i))
		if args[1].Order == "LE" {
			sh = uint(8 * i)
		}
		val = constant.BinaryOp(val, token.OR, constant.Shift(constant.MakeInt64(int64(b)), token.SHL, sh))
	}
	rd.pos += size
	if known {
		fr.Locals[v] = EVal{K: EConst, C: val, T: v.Type()}
	} else {
		fr.Locals[v] = EUnk("bytes read from " + rd.win.Base)
	}
	return EVal{K: ENil}
}
