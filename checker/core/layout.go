package core

import (
	"fmt"
	"go/ast"
	"go/constant"
	"go/token"
	"go/types"
	"sort"
	"strings"
)

// Engine E5 (layout part): writer/reader byte-layout extraction.
//
// From any function the extractor collects the accesses to byte buffers that
// have a position in the buffer:
//
//	writers:  binary.X.PutUintN(buf[off:], v)   copy(buf[off:], src)   buf[off] = v
//	readers:  binary.X.UintN(buf[a:b])          buf[i]                 string(buf[a:b]) / T(buf[a:b])
//
// Offsets are evaluated as constants through go/types (named constants are
// followed; a parameter that receives the same constant at every call site of
// an unexported function counts as that constant). Everything is resolved
// through objects: the byte order is the receiver type of the encoding/binary
// method, never the spelling of the variable.
//
// Two flow-insensitive provenance helpers give the semantic side of an entry:
// Origins (where does a written value come from: struct field, constant,
// len(..), call) and Sinks (where does a read value go: struct field, through
// which call argument, compared with which constant). Both follow locals
// through all their definitions/uses and parameters/results through the call
// sites in the module, so renaming a local, introducing a temporary or
// extracting a helper does not change the answer.

// LayoutEntry is one positioned access to a byte buffer.
type LayoutEntry struct {
	Fn    *FuncInfo
	Node  ast.Node // the call, assignment or expression
	Pos   token.Pos
	Write bool
	// buffer
	BufObj  types.Object // variable or field the buffer expression is rooted in (nil if not a plain variable/field)
	BufExpr ast.Expr
	// offset
	OffKnown bool
	Off      int64
	OffMin   int64 // lower bound when the offset is K + non-negative terms (== Off when known)
	OffExpr  ast.Expr
	// extent
	Width int64 // bytes; -1 when not a constant
	// for reads through a slice with an explicit constant upper bound: hi-lo (else -1)
	SliceWidth int64
	Endian     string         // "LE", "BE", "?" (dynamic byte order), "" for single bytes / raw bytes
	Kind       string         // "uint", "byte", "bytes", "string"
	Val        ast.Expr       // writer: the value written (src of copy); reader: the read expression itself
	Const      constant.Value // writer: the written value when it is a constant (string or integer)
	// Via is the chain of call sites through which the buffer reached Fn (nil when the access is in the queried function itself).
	Via *CallCtx
}

// CallCtx binds the parameters of a callee to the argument expressions of one call site.
type CallCtx struct {
	Site   LayoutCallSite
	Callee *FuncInfo
	Outer  *CallCtx
}

// String renders an entry compactly (for details, never for keys).
func (e *LayoutEntry) String() string {
	off := "?"
	if e.OffKnown {
		off = fmt.Sprint(e.Off)
	} else if e.OffExpr != nil {
		off = types.ExprString(e.OffExpr)
	}
	w := "?"
	if e.Width >= 0 {
		w = fmt.Sprint(e.Width)
	}
	rw := "read"
	if e.Write {
		rw = "write"
	}
	s := fmt.Sprintf("%s %s@%s/%s", rw, e.Kind, off, w)
	if e.Endian != "" {
		s += " " + e.Endian
	}
	return s
}

// Field is the comparable shape of an entry.
func (e *LayoutEntry) Field() string {
	return fmt.Sprintf("@%d/%d%s", e.Off, e.Width, map[string]string{"": "", "LE": " LE", "BE": " BE", "?": " ?"}[e.Endian])
}

// UnrecognisedBinary is a use of encoding/binary the extractor does not model.
type UnrecognisedBinary struct {
	Fn   *FuncInfo
	Call *ast.CallExpr
	What string
}

// Layout is the extractor with its per-program caches.
type Layout struct {
	P       *Program
	parents map[*FuncInfo]map[ast.Node]ast.Node
	defs    map[*FuncInfo]map[*types.Var][]localDef
	uses    map[*FuncInfo]map[*types.Var][]*ast.Ident
	sites   map[*types.Func][]LayoutCallSite
	sitesOK bool
	ctx     *CallCtx // current call context (EntriesDeep / EntryOrigins); nil = all call sites
}

// boundArg returns the argument bound to parameter pi of fi in the current call context.
func (l *Layout) boundArg(fi *FuncInfo, pi int) (*FuncInfo, ast.Expr, *CallCtx, bool) {
	for c := l.ctx; c != nil; c = c.Outer {
		if c.Callee == fi {
			if pi >= 0 && pi < len(c.Site.Call.Args) {
				return c.Site.Caller, c.Site.Call.Args[pi], c.Outer, true
			}
			return nil, nil, nil, false
		}
	}
	return nil, nil, nil, false
}

// LayoutCallSite is one static call of a module function.
type LayoutCallSite struct {
	Caller *FuncInfo
	Call   *ast.CallExpr
}

type localDef struct {
	rhs     ast.Expr // nil for zero-value declarations and mutations
	idx     int      // result index when rhs is a multi-value call; -1 otherwise
	kind    string   // "assign", "range-key", "range-value", "mutate", "zero", "addr"
	rangeOf ast.Expr
	opTok   token.Token
}

// NewLayout returns an extractor for p.
func NewLayout(p *Program) *Layout {
	return &Layout{P: p, parents: map[*FuncInfo]map[ast.Node]ast.Node{}, defs: map[*FuncInfo]map[*types.Var][]localDef{},
		uses: map[*FuncInfo]map[*types.Var][]*ast.Ident{}, sites: map[*types.Func][]LayoutCallSite{}}
}

// ---------- structure caches ----------

func (l *Layout) parentMap(fi *FuncInfo) map[ast.Node]ast.Node {
	if m := l.parents[fi]; m != nil {
		return m
	}
	m := map[ast.Node]ast.Node{}
	var stack []ast.Node
	ast.Inspect(fi.Decl, func(n ast.Node) bool {
		if n == nil {
			stack = stack[:len(stack)-1]
			return false
		}
		if len(stack) > 0 {
			m[n] = stack[len(stack)-1]
		}
		stack = append(stack, n)
		return true
	})
	l.parents[fi] = m
	return m
}

func (l *Layout) scanLocals(fi *FuncInfo) {
	if l.defs[fi] != nil {
		return
	}
	info := fi.Pkg.TypesInfo
	defs := map[*types.Var][]localDef{}
	uses := map[*types.Var][]*ast.Ident{}
	add := func(e ast.Expr, d localDef) {
		if v := VarOf(info, e); v != nil {
			defs[v] = append(defs[v], d)
		}
	}
	ast.Inspect(fi.Decl, func(n ast.Node) bool {
		switch s := n.(type) {
		case *ast.AssignStmt:
			switch {
			case s.Tok != token.ASSIGN && s.Tok != token.DEFINE:
				add(s.Lhs[0], localDef{rhs: s.Rhs[0], idx: -1, kind: "mutate", opTok: s.Tok})
			case len(s.Lhs) == len(s.Rhs):
				for i, lh := range s.Lhs {
					add(lh, localDef{rhs: s.Rhs[i], idx: -1, kind: "assign"})
				}
			case len(s.Rhs) == 1:
				for i, lh := range s.Lhs {
					add(lh, localDef{rhs: s.Rhs[0], idx: i, kind: "assign"})
				}
			}
		case *ast.IncDecStmt:
			add(s.X, localDef{idx: -1, kind: "mutate", opTok: s.Tok})
		case *ast.ValueSpec:
			for i, nm := range s.Names {
				switch {
				case len(s.Values) == len(s.Names):
					add(nm, localDef{rhs: s.Values[i], idx: -1, kind: "assign"})
				case len(s.Values) == 1:
					add(nm, localDef{rhs: s.Values[0], idx: i, kind: "assign"})
				default:
					add(nm, localDef{idx: -1, kind: "zero"})
				}
			}
		case *ast.RangeStmt:
			if s.Key != nil {
				add(s.Key, localDef{idx: -1, kind: "range-key", rangeOf: s.X})
			}
			if s.Value != nil {
				add(s.Value, localDef{idx: -1, kind: "range-value", rangeOf: s.X})
			}
		case *ast.UnaryExpr:
			if s.Op == token.AND {
				if v := VarOf(info, s.X); v != nil {
					defs[v] = append(defs[v], localDef{idx: -1, kind: "addr"})
				}
			}
		case *ast.Ident:
			if v, ok := info.Uses[s].(*types.Var); ok {
				uses[v] = append(uses[v], s)
			}
		}
		return true
	})
	l.defs[fi] = defs
	l.uses[fi] = uses
}

// UniqueDef returns the defining expression of local v when it has exactly one single-value definition
// and is never mutated or address-taken (nil otherwise).
func (l *Layout) UniqueDef(fi *FuncInfo, v *types.Var) ast.Expr {
	l.scanLocals(fi)
	ds := l.defs[fi][v]
	if len(ds) != 1 || ds[0].kind != "assign" || ds[0].idx >= 0 {
		return nil
	}
	return ds[0].rhs
}

// DefExprs returns all single-value defining expressions of local v.
func (l *Layout) DefExprs(fi *FuncInfo, v *types.Var) []ast.Expr {
	l.scanLocals(fi)
	var out []ast.Expr
	for _, d := range l.defs[fi][v] {
		if d.rhs != nil {
			out = append(out, d.rhs)
		}
	}
	return out
}

// Parent returns the syntactic parent of n inside fi.
func (l *Layout) Parent(fi *FuncInfo, n ast.Node) ast.Node { return l.parentMap(fi)[n] }

// CallSites lists the static call sites of fn in the module.
func (l *Layout) CallSites(fn *types.Func) []LayoutCallSite {
	if !l.sitesOK {
		for _, fi := range l.P.AllFuncs() {
			if fi.Decl.Body == nil {
				continue
			}
			info := fi.Pkg.TypesInfo
			ast.Inspect(fi.Decl.Body, func(n ast.Node) bool {
				if c, ok := n.(*ast.CallExpr); ok {
					if callee := Callee(info, c); callee != nil && l.P.DeclOf(callee) != nil {
						l.sites[callee] = append(l.sites[callee], LayoutCallSite{fi, c})
					}
				}
				return true
			})
		}
		l.sitesOK = true
	}
	return l.sites[fn.Origin()]
}

// paramIndex returns the index of v among fi's parameters (-1 receiver, -2 not a parameter).
func paramIndex(fi *FuncInfo, v *types.Var) int {
	sig := fi.Obj.Type().(*types.Signature)
	if sig.Recv() == v {
		return -1
	}
	for i := 0; i < sig.Params().Len(); i++ {
		if sig.Params().At(i) == v {
			return i
		}
	}
	return -2
}

// enclosingLit returns the innermost function literal of fi that contains n (nil if none).
func (l *Layout) enclosingLit(fi *FuncInfo, n ast.Node) *ast.FuncLit {
	pm := l.parentMap(fi)
	for p := pm[n]; p != nil; p = pm[p] {
		if fl, ok := p.(*ast.FuncLit); ok {
			return fl
		}
	}
	return nil
}

// ---------- constant folding ----------

// ConstInt evaluates e as an integer constant: go/types constants, parameters
// bound to one constant at every call site, and + - * over those.
func (l *Layout) ConstInt(fi *FuncInfo, e ast.Expr) (int64, bool) {
	return l.constInt(fi, e, 0)
}

func (l *Layout) constInt(fi *FuncInfo, e ast.Expr, depth int) (int64, bool) {
	if e == nil || depth > 6 {
		return 0, false
	}
	info := fi.Pkg.TypesInfo
	if tv, ok := info.Types[e]; ok && tv.Value != nil && tv.Value.Kind() == constant.Int {
		return constant.Int64Val(tv.Value)
	}
	switch x := ast.Unparen(e).(type) {
	case *ast.Ident:
		v, _ := info.Uses[x].(*types.Var)
		if v == nil {
			return 0, false
		}
		if pi := paramIndex(fi, v); pi >= 0 && l.enclosingLit(fi, x) == nil {
			l.scanLocals(fi)
			if len(l.defs[fi][v]) > 0 {
				return 0, false // reassigned parameter
			}
			if cfi, arg, outer, ok := l.boundArg(fi, pi); ok {
				saved := l.ctx
				l.ctx = outer
				n, okc := l.constInt(cfi, arg, depth+1)
				l.ctx = saved
				return n, okc
			}
			sites := l.CallSites(fi.Obj)
			if len(sites) == 0 || fi.Obj.Exported() {
				return 0, false
			}
			var val int64
			for i, s := range sites {
				if pi >= len(s.Call.Args) {
					return 0, false
				}
				n, ok := l.constInt(s.Caller, s.Call.Args[pi], depth+1)
				if !ok || (i > 0 && n != val) {
					return 0, false
				}
				val = n
			}
			return val, true
		}
		return 0, false
	case *ast.BinaryExpr:
		a, ok1 := l.constInt(fi, x.X, depth+1)
		b, ok2 := l.constInt(fi, x.Y, depth+1)
		if !ok1 || !ok2 {
			return 0, false
		}
		switch x.Op {
		case token.ADD:
			return a + b, true
		case token.SUB:
			return a - b, true
		case token.MUL:
			return a * b, true
		}
	case *ast.CallExpr:
		// conversion of a constant-foldable operand
		if tv, ok := info.Types[x.Fun]; ok && tv.IsType() && len(x.Args) == 1 {
			return l.constInt(fi, x.Args[0], depth+1)
		}
	}
	return 0, false
}

// lowerBound returns K when e is K + (non-negative terms: len(..), unsigned values); ok=false otherwise.
func (l *Layout) lowerBound(fi *FuncInfo, e ast.Expr) (int64, bool) {
	if n, ok := l.ConstInt(fi, e); ok {
		return n, true
	}
	info := fi.Pkg.TypesInfo
	switch x := ast.Unparen(e).(type) {
	case *ast.BinaryExpr:
		if x.Op == token.ADD {
			a, ok1 := l.lowerBound(fi, x.X)
			b, ok2 := l.lowerBound(fi, x.Y)
			if ok1 && ok2 {
				return a + b, true
			}
		}
	case *ast.CallExpr:
		if id, ok := ast.Unparen(x.Fun).(*ast.Ident); ok {
			if b, ok := info.Uses[id].(*types.Builtin); ok && (b.Name() == "len" || b.Name() == "cap") {
				return 0, true
			}
		}
		if tv, ok := info.Types[x.Fun]; ok && tv.IsType() && len(x.Args) == 1 {
			// int(uintN) style conversions keep non-negativity of unsigned operands
			if bt, ok := info.TypeOf(x.Args[0]).Underlying().(*types.Basic); ok && bt.Info()&types.IsUnsigned != 0 {
				return 0, true
			}
			return l.lowerBound(fi, x.Args[0])
		}
	}
	if bt, ok := info.TypeOf(e).Underlying().(*types.Basic); ok && bt.Info()&types.IsUnsigned != 0 {
		return 0, true
	}
	return 0, false
}

// ---------- entry extraction ----------

func isByteSeq(t types.Type) bool {
	if t == nil {
		return false
	}
	switch u := t.Underlying().(type) {
	case *types.Slice:
		b, ok := u.Elem().Underlying().(*types.Basic)
		return ok && b.Kind() == types.Uint8
	case *types.Array:
		b, ok := u.Elem().Underlying().(*types.Basic)
		return ok && b.Kind() == types.Uint8
	case *types.Pointer:
		if a, ok := u.Elem().Underlying().(*types.Array); ok {
			b, ok := a.Elem().Underlying().(*types.Basic)
			return ok && b.Kind() == types.Uint8
		}
	}
	return false
}

// binaryOp classifies a call into encoding/binary: name is UintN/PutUintN/AppendUintN, bits N, endian from the receiver type.
func binaryOp(info *types.Info, call *ast.CallExpr) (name string, bits int64, endian string, isBinary bool) {
	fn := Callee(info, call)
	if fn == nil || fn.Pkg() == nil || fn.Pkg().Path() != "encoding/binary" {
		return "", 0, "", false
	}
	sig := fn.Type().(*types.Signature)
	n := fn.Name()
	for _, pre := range []string{"PutUint", "AppendUint", "Uint"} {
		if strings.HasPrefix(n, pre) {
			switch n[len(pre):] {
			case "16":
				bits = 16
			case "32":
				bits = 32
			case "64":
				bits = 64
			}
			if bits != 0 && sig.Recv() != nil {
				name = pre
				break
			}
		}
	}
	if name == "" {
		return fn.Name(), 0, "", true
	}
	endian = "?"
	rt := sig.Recv().Type()
	if p, ok := rt.(*types.Pointer); ok {
		rt = p.Elem()
	}
	if nt, ok := rt.(*types.Named); ok {
		switch nt.Obj().Name() {
		case "littleEndian":
			endian = "LE"
		case "bigEndian":
			endian = "BE"
		}
	}
	return name, bits, endian, true
}

// bufferRef decomposes a buffer argument: buf, buf[lo:], buf[lo:hi], buf[:hi].
func bufferRef(e ast.Expr) (base ast.Expr, lo, hi ast.Expr, sliced bool) {
	e = ast.Unparen(e)
	if se, ok := e.(*ast.SliceExpr); ok {
		return ast.Unparen(se.X), se.Low, se.High, true
	}
	return e, nil, nil, false
}

func rootObj(info *types.Info, e ast.Expr) types.Object {
	e = ast.Unparen(e)
	if v := VarOf(info, e); v != nil {
		return v
	}
	if f := FieldOf(info, e); f != nil {
		return f
	}
	return nil
}

func (l *Layout) newEntry(fi *FuncInfo, node ast.Node, write bool, buf ast.Expr) *LayoutEntry {
	info := fi.Pkg.TypesInfo
	base, lo, hi, _ := bufferRef(buf)
	e := &LayoutEntry{Fn: fi, Node: node, Pos: node.Pos(), Write: write, BufExpr: base, BufObj: rootObj(info, base), Width: -1, SliceWidth: -1}
	if lo == nil {
		e.OffKnown, e.Off, e.OffMin = true, 0, 0
	} else {
		e.OffExpr = lo
		if n, ok := l.ConstInt(fi, lo); ok {
			e.OffKnown, e.Off, e.OffMin = true, n, n
		} else if n, ok := l.lowerBound(fi, lo); ok {
			e.OffMin = n
		}
	}
	if hi != nil {
		if h, ok := l.ConstInt(fi, hi); ok && e.OffKnown {
			e.SliceWidth = h - e.Off
		} else if d, ok := l.constDiff(fi, hi, lo); ok {
			e.SliceWidth = d
		}
	}
	return e
}

// constDiff evaluates hi-lo when hi is syntactically lo + K (K constant) even though lo is symbolic.
func (l *Layout) constDiff(fi *FuncInfo, hi, lo ast.Expr) (int64, bool) {
	if hi == nil || lo == nil {
		return 0, false
	}
	be, ok := ast.Unparen(hi).(*ast.BinaryExpr)
	if !ok || be.Op != token.ADD {
		return 0, false
	}
	los := types.ExprString(ast.Unparen(lo))
	if types.ExprString(ast.Unparen(be.X)) == los {
		return l.ConstInt(fi, be.Y)
	}
	if types.ExprString(ast.Unparen(be.Y)) == los {
		return l.ConstInt(fi, be.X)
	}
	return 0, false
}

// Entries extracts every positioned byte-buffer access of fi (function literals included).
func (l *Layout) Entries(fi *FuncInfo) ([]*LayoutEntry, []UnrecognisedBinary) {
	if fi == nil || fi.Decl.Body == nil {
		return nil, nil
	}
	info := fi.Pkg.TypesInfo
	pm := l.parentMap(fi)
	var out []*LayoutEntry
	var unrec []UnrecognisedBinary
	consumed := map[ast.Node]bool{} // index/slice expressions already accounted for
	ast.Inspect(fi.Decl.Body, func(n ast.Node) bool {
		switch x := n.(type) {
		case *ast.CallExpr:
			if name, bits, endian, isBin := binaryOp(info, x); isBin {
				switch {
				case name == "PutUint" && len(x.Args) == 2:
					e := l.newEntry(fi, x, true, x.Args[0])
					e.Width, e.Endian, e.Kind, e.Val = bits/8, endian, "uint", x.Args[1]
					if tv, ok := info.Types[x.Args[1]]; ok && tv.Value != nil {
						e.Const = tv.Value
					}
					out = append(out, e)
					consumed[ast.Unparen(x.Args[0])] = true
				case name == "Uint" && len(x.Args) == 1:
					e := l.newEntry(fi, x, false, x.Args[0])
					e.Width, e.Endian, e.Kind, e.Val = bits/8, endian, "uint", x
					out = append(out, e)
					consumed[ast.Unparen(x.Args[0])] = true
				default:
					unrec = append(unrec, UnrecognisedBinary{fi, x, "encoding/binary." + name})
				}
				return true
			}
			// copy(dst, src)
			if id, ok := ast.Unparen(x.Fun).(*ast.Ident); ok && len(x.Args) == 2 {
				if b, ok := info.Uses[id].(*types.Builtin); ok && b.Name() == "copy" && isByteSeq(info.TypeOf(x.Args[0])) {
					e := l.newEntry(fi, x, true, x.Args[0])
					e.Kind, e.Val = "bytes", x.Args[1]
					if tv, ok := info.Types[x.Args[1]]; ok && tv.Value != nil && tv.Value.Kind() == constant.String {
						e.Const = tv.Value
						e.Width = int64(len(constant.StringVal(tv.Value)))
					} else if w, ok := l.KnownLen(fi, x.Args[1]); ok {
						e.Width = w
					}
					out = append(out, e)
					consumed[ast.Unparen(x.Args[0])] = true
				}
			}
			// T(buf[a:b]) with T a string type
			if tv, ok := info.Types[x.Fun]; ok && tv.IsType() && len(x.Args) == 1 {
				if bt, ok := tv.Type.Underlying().(*types.Basic); ok && bt.Info()&types.IsString != 0 {
					if se, ok := ast.Unparen(x.Args[0]).(*ast.SliceExpr); ok && isByteSeq(info.TypeOf(se.X)) {
						e := l.newEntry(fi, x, false, se)
						e.Kind, e.Val = "string", x
						e.Width = e.SliceWidth
						out = append(out, e)
						consumed[se] = true
					}
				}
			}
		case *ast.IndexExpr:
			if !isByteSeq(info.TypeOf(x.X)) {
				return true
			}
			// write when it is the target of an assignment
			write := false
			var val ast.Expr
			var node ast.Node = x
			if as, ok := pm[x].(*ast.AssignStmt); ok {
				for i, lh := range as.Lhs {
					if ast.Unparen(lh) == ast.Expr(x) {
						write = true
						node = as
						if len(as.Rhs) == len(as.Lhs) {
							val = as.Rhs[i]
						}
					}
				}
			}
			if ids, ok := pm[x].(*ast.IncDecStmt); ok {
				write, node = true, ids
			}
			e := &LayoutEntry{Fn: fi, Node: node, Pos: x.Pos(), Write: write, BufExpr: ast.Unparen(x.X), BufObj: rootObj(info, x.X), Width: 1, SliceWidth: -1, Kind: "byte", OffExpr: x.Index}
			if n, ok := l.ConstInt(fi, x.Index); ok {
				e.OffKnown, e.Off, e.OffMin = true, n, n
			} else if n, ok := l.lowerBound(fi, x.Index); ok {
				e.OffMin = n
			}
			if write {
				e.Val = val
				if val != nil {
					if tv, ok := info.Types[val]; ok && tv.Value != nil {
						e.Const = tv.Value
					}
				}
			} else {
				e.Val = x
			}
			out = append(out, e)
		}
		return true
	})
	sort.SliceStable(out, func(i, j int) bool { return out[i].Pos < out[j].Pos })
	return out, unrec
}

// EntriesDeep returns the entries of fi on the buffer rooted in buf and, transitively, the entries of the
// module functions the buffer (or a constant-offset tail of it) is passed to, with offsets shifted into the
// caller's frame and parameters bound per call site. Extracting part of a header writer/parser into a
// helper therefore does not change the extracted layout.
func (l *Layout) EntriesDeep(fi *FuncInfo, buf types.Object) ([]*LayoutEntry, []UnrecognisedBinary) {
	return l.entriesDeep(fi, buf, 0)
}

func (l *Layout) entriesDeep(fi *FuncInfo, buf types.Object, depth int) ([]*LayoutEntry, []UnrecognisedBinary) {
	all, unrec := l.Entries(fi)
	var out []*LayoutEntry
	for _, e := range all {
		if e.BufObj == buf {
			e.Via = l.ctx
			out = append(out, e)
		}
	}
	if depth >= 3 || fi.Decl.Body == nil {
		return out, unrec
	}
	info := fi.Pkg.TypesInfo
	ast.Inspect(fi.Decl.Body, func(n ast.Node) bool {
		call, ok := n.(*ast.CallExpr)
		if !ok {
			return true
		}
		callee := Callee(info, call)
		cfi := l.P.DeclOf(callee)
		if cfi == nil || cfi.Decl.Body == nil || cfi == fi {
			return true
		}
		sig := callee.Type().(*types.Signature)
		for i, a := range call.Args {
			base, lo, _, _ := bufferRef(a)
			if rootObj(info, base) != buf || !isByteSeq(info.TypeOf(a)) {
				continue
			}
			if i >= sig.Params().Len() || (sig.Variadic() && i >= sig.Params().Len()-1) {
				continue
			}
			shift, shiftKnown := int64(0), true
			if lo != nil {
				shift, shiftKnown = l.ConstInt(fi, lo)
			}
			saved := l.ctx
			l.ctx = &CallCtx{Site: LayoutCallSite{fi, call}, Callee: cfi, Outer: saved}
			sub, un := l.entriesDeep(cfi, sig.Params().At(i), depth+1)
			l.ctx = saved
			unrec = append(unrec, un...)
			for _, e := range sub {
				if shiftKnown {
					e.Off += shift
					e.OffMin += shift
				} else {
					e.OffKnown = false
				}
				e.BufObj = buf
				out = append(out, e)
			}
		}
		return true
	})
	return out, unrec
}

// SeqItem is one entry of a program-order layout sequence.
type SeqItem struct {
	E    *LayoutEntry
	Loop int // loop nesting depth, counted across inlined calls
}

// SequenceDeep lists the entries on buffer buf in program (source) order, expanding calls that receive the
// buffer in place, with the loop nesting depth of each entry. It is meant for variable-offset layouts
// written/parsed sequentially with a cursor.
func (l *Layout) SequenceDeep(fi *FuncInfo, buf types.Object) []SeqItem {
	return l.sequenceDeep(fi, buf, 0, 0)
}

func (l *Layout) sequenceDeep(fi *FuncInfo, buf types.Object, loop, depth int) []SeqItem {
	if fi == nil || fi.Decl.Body == nil || depth > 4 {
		return nil
	}
	info := fi.Pkg.TypesInfo
	all, _ := l.Entries(fi)
	byNode := map[ast.Node]*LayoutEntry{}
	for _, e := range all {
		if e.BufObj == buf {
			e.Via = l.ctx
			byNode[e.Node] = e
			if ix, ok := e.Val.(*ast.IndexExpr); ok && !e.Write {
				byNode[ix] = e
			}
		}
	}
	var out []SeqItem
	var walk func(n ast.Node, loop int)
	walk = func(n ast.Node, loop int) {
		ast.Inspect(n, func(x ast.Node) bool {
			if x == nil {
				return false
			}
			switch s := x.(type) {
			case *ast.ForStmt:
				if s.Init != nil {
					walk(s.Init, loop)
				}
				if s.Cond != nil {
					walk(s.Cond, loop+1)
				}
				walk(s.Body, loop+1)
				if s.Post != nil {
					walk(s.Post, loop+1)
				}
				return false
			case *ast.RangeStmt:
				walk(s.X, loop)
				walk(s.Body, loop+1)
				return false
			case *ast.FuncLit:
				return false
			}
			if e, ok := byNode[x]; ok {
				out = append(out, SeqItem{e, loop})
				delete(byNode, x)
				if _, isCall := x.(*ast.CallExpr); !isCall {
					return true
				}
				return true
			}
			if call, ok := x.(*ast.CallExpr); ok {
				callee := Callee(info, call)
				cfi := l.P.DeclOf(callee)
				if cfi != nil && cfi.Decl.Body != nil && cfi != fi {
					sig := callee.Type().(*types.Signature)
					for i, a := range call.Args {
						base, lo, _, _ := bufferRef(a)
						if rootObj(info, base) != buf || !isByteSeq(info.TypeOf(a)) || i >= sig.Params().Len() {
							continue
						}
						shift, shiftKnown := int64(0), true
						if lo != nil {
							shift, shiftKnown = l.ConstInt(fi, lo)
						}
						saved := l.ctx
						l.ctx = &CallCtx{Site: LayoutCallSite{fi, call}, Callee: cfi, Outer: saved}
						sub := l.sequenceDeep(cfi, sig.Params().At(i), loop, depth+1)
						l.ctx = saved
						for _, it := range sub {
							if shiftKnown {
								it.E.Off += shift
								it.E.OffMin += shift
							} else {
								it.E.OffKnown = false
							}
							out = append(out, it)
						}
					}
				}
			}
			return true
		})
	}
	walk(fi.Decl.Body, loop)
	return out
}

// EntryOrigins is Origins of the entry's value in the call context the entry was found in.
func (l *Layout) EntryOrigins(e *LayoutEntry) []string {
	saved := l.ctx
	l.ctx = e.Via
	defer func() { l.ctx = saved }()
	return l.Origins(e.Fn, e.Val)
}

// EntrySinks is Sinks of the entry's value.
func (l *Layout) EntrySinks(e *LayoutEntry) []string {
	saved := l.ctx
	l.ctx = e.Via
	defer func() { l.ctx = saved }()
	return l.Sinks(e.Fn, e.Val)
}

// KnownLen returns the length of a byte-sequence expression when it is fixed:
// constant strings, arrays, composite literals, constant slices, make with a
// constant length, and (net.IP).To4() (4 bytes when non-nil).
func (l *Layout) KnownLen(fi *FuncInfo, e ast.Expr) (int64, bool) {
	return l.knownLen(fi, e, 0)
}

func (l *Layout) knownLen(fi *FuncInfo, e ast.Expr, depth int) (int64, bool) {
	if depth > 4 || e == nil {
		return 0, false
	}
	info := fi.Pkg.TypesInfo
	e = ast.Unparen(e)
	if tv, ok := info.Types[e]; ok {
		if tv.Value != nil && tv.Value.Kind() == constant.String {
			return int64(len(constant.StringVal(tv.Value))), true
		}
		if a, ok := tv.Type.Underlying().(*types.Array); ok {
			return a.Len(), true
		}
	}
	switch x := e.(type) {
	case *ast.CompositeLit:
		if _, ok := info.TypeOf(x).Underlying().(*types.Slice); ok {
			for _, el := range x.Elts {
				if _, kv := el.(*ast.KeyValueExpr); kv {
					return 0, false
				}
			}
			return int64(len(x.Elts)), true
		}
	case *ast.SliceExpr:
		lo := int64(0)
		if x.Low != nil {
			n, ok := l.ConstInt(fi, x.Low)
			if !ok {
				if d, ok := l.constDiff(fi, x.High, x.Low); ok {
					return d, true
				}
				return 0, false
			}
			lo = n
		}
		if x.High != nil {
			if h, ok := l.ConstInt(fi, x.High); ok {
				return h - lo, true
			}
		}
	case *ast.CallExpr:
		if id, ok := ast.Unparen(x.Fun).(*ast.Ident); ok {
			if b, ok := info.Uses[id].(*types.Builtin); ok && b.Name() == "make" && len(x.Args) >= 2 {
				return l.ConstInt(fi, x.Args[1])
			}
		}
		if fn := Callee(info, x); fn != nil && fn.Pkg() != nil && fn.Pkg().Path() == "net" && fn.Name() == "To4" {
			return 4, true
		}
	case *ast.Ident:
		v := VarOf(info, x)
		if v == nil {
			return 0, false
		}
		l.scanLocals(fi)
		ds := l.defs[fi][v]
		if len(ds) == 0 {
			return 0, false
		}
		var val int64
		for i, d := range ds {
			if d.kind != "assign" || d.rhs == nil || d.idx >= 0 {
				return 0, false
			}
			n, ok := l.knownLen(fi, d.rhs, depth+1)
			if !ok || (i > 0 && n != val) {
				return 0, false
			}
			val = n
		}
		return val, true
	}
	return 0, false
}

// GroupByBuffer groups entries by the object their buffer is rooted in.
func GroupByBuffer(es []*LayoutEntry) map[types.Object][]*LayoutEntry {
	m := map[types.Object][]*LayoutEntry{}
	for _, e := range es {
		m[e.BufObj] = append(m[e.BufObj], e)
	}
	return m
}

// ---------- provenance: Origins ----------

// Origins describes where the value of e comes from, as a sorted set of leaves:
//
//	const:<value>      a constant (value as printed by go/constant)
//	field:T.f          a field of struct type T (last selection of the chain)
//	len(<leaf>)        the length of something
//	call:<callee>#k    result k of a call that is not followed (external or bodyless)
//	param#i:<fn>       a parameter of an exported function / a function without call sites
//	elem(<leaf>)       an element of a ranged collection
//	op<tok>            marks that arithmetic/bit operations were traversed (e.g. "op+")
//	?<why>             unknown
//
// Locals are followed through every definition, parameters through every call
// site, call results into the callee's return statements (depth-bounded).
func (l *Layout) Origins(fi *FuncInfo, e ast.Expr) []string {
	set := map[string]bool{}
	l.origins(fi, e, set, map[string]bool{}, 0)
	var out []string
	for k := range set {
		out = append(out, k)
	}
	sort.Strings(out)
	return out
}

func namedOf(t types.Type) string {
	if t == nil {
		return "?"
	}
	if p, ok := t.(*types.Pointer); ok {
		t = p.Elem()
	}
	if n, ok := t.(*types.Named); ok {
		return n.Obj().Name()
	}
	return t.String()
}

func (l *Layout) origins(fi *FuncInfo, e ast.Expr, set, seen map[string]bool, depth int) {
	if e == nil {
		set["?nil-expr"] = true
		return
	}
	if depth > 8 {
		set["?depth"] = true
		return
	}
	info := fi.Pkg.TypesInfo
	e = ast.Unparen(e)
	if tv, ok := info.Types[e]; ok && tv.Value != nil {
		set["const:"+tv.Value.ExactString()] = true
		return
	}
	switch x := e.(type) {
	case *ast.Ident:
		if IsNilIdent(info, x) {
			set["const:nil"] = true
			return
		}
		v := VarOf(info, x)
		if v == nil {
			set["?ident"] = true
			return
		}
		if v.Pkg() != nil && v.Parent() == v.Pkg().Scope() {
			set["var:"+v.Pkg().Name()+"."+v.Name()] = true
			return
		}
		key := fmt.Sprintf("v%d", v.Pos())
		if seen[key] {
			return
		}
		seen[key] = true
		l.scanLocals(fi)
		if pi := paramIndex(fi, v); pi != -2 && l.enclosingLit(fi, x) == nil {
			if pi == -1 {
				set["recv:"+namedOf(v.Type())] = true
			} else if cfi, arg, outer, ok := l.boundArg(fi, pi); ok {
				saved := l.ctx
				l.ctx = outer
				l.origins(cfi, arg, set, seen, depth+1)
				l.ctx = saved
			} else {
				sites := l.CallSites(fi.Obj)
				if len(sites) == 0 || fi.Obj.Exported() {
					set[fmt.Sprintf("param#%d:%s", pi, fi.Name())] = true
				}
				for _, s := range sites {
					if pi < len(s.Call.Args) && !(fi.Obj.Type().(*types.Signature).Variadic() && pi >= fi.Obj.Type().(*types.Signature).Params().Len()-1) {
						l.origins(s.Caller, s.Call.Args[pi], set, seen, depth+1)
					} else {
						set["?variadic"] = true
					}
				}
			}
		} else if pi != -2 {
			set["?param-in-literal"] = true
		}
		for _, d := range l.defs[fi][v] {
			switch d.kind {
			case "assign":
				if d.idx < 0 {
					l.origins(fi, d.rhs, set, seen, depth+1)
				} else {
					l.resultOrigins(fi, d.rhs, d.idx, set, seen, depth+1)
				}
			case "mutate":
				set["op"+strings.TrimSuffix(d.opTok.String(), "=")] = true
				if d.rhs != nil {
					l.origins(fi, d.rhs, set, seen, depth+1)
				}
			case "range-value":
				sub := map[string]bool{}
				l.origins(fi, d.rangeOf, sub, seen, depth+1)
				for k := range sub {
					set["elem("+k+")"] = true
				}
			case "range-key":
				set["index"] = true
			case "zero":
				set["const:zero"] = true
			case "addr":
				set["?address-taken"] = true
			}
		}
		if len(l.defs[fi][v]) == 0 && paramIndex(fi, v) == -2 {
			// function-literal parameter or named result
			set["?unbound:"+namedOf(v.Type())] = true
		}
	case *ast.SelectorExpr:
		if f := FieldOf(info, x); f != nil {
			set["field:"+namedOf(info.TypeOf(x.X))+"."+f.Name()] = true
			return
		}
		if obj, ok := info.Uses[x.Sel].(*types.Var); ok && obj.Pkg() != nil {
			set["var:"+obj.Pkg().Name()+"."+obj.Name()] = true
			return
		}
		set["?selector"] = true
	case *ast.CallExpr:
		if tv, ok := info.Types[x.Fun]; ok && tv.IsType() && len(x.Args) == 1 {
			l.origins(fi, x.Args[0], set, seen, depth) // conversion
			return
		}
		if id, ok := ast.Unparen(x.Fun).(*ast.Ident); ok {
			if b, ok := info.Uses[id].(*types.Builtin); ok {
				switch b.Name() {
				case "len", "cap":
					sub := map[string]bool{}
					l.origins(fi, x.Args[0], sub, seen, depth+1)
					for k := range sub {
						set[b.Name()+"("+k+")"] = true
					}
				case "append":
					for _, a := range x.Args {
						l.origins(fi, a, set, seen, depth+1)
					}
				case "min", "max":
					set["op"+b.Name()] = true
					for _, a := range x.Args {
						l.origins(fi, a, set, seen, depth+1)
					}
				default:
					set["call:builtin."+b.Name()] = true
				}
				return
			}
		}
		l.resultOrigins(fi, x, 0, set, seen, depth+1)
	case *ast.BinaryExpr:
		set["op"+x.Op.String()] = true
		l.origins(fi, x.X, set, seen, depth+1)
		l.origins(fi, x.Y, set, seen, depth+1)
	case *ast.UnaryExpr:
		if x.Op != token.AND {
			set["op"+x.Op.String()] = true
		}
		l.origins(fi, x.X, set, seen, depth+1)
	case *ast.StarExpr:
		l.origins(fi, x.X, set, seen, depth+1)
	case *ast.IndexExpr:
		sub := map[string]bool{}
		l.origins(fi, x.X, sub, seen, depth+1)
		for k := range sub {
			set["elem("+k+")"] = true
		}
	case *ast.SliceExpr:
		l.origins(fi, x.X, set, seen, depth+1)
	case *ast.CompositeLit:
		set["lit:"+namedOf(info.TypeOf(x))] = true
	case *ast.TypeAssertExpr:
		l.origins(fi, x.X, set, seen, depth+1)
	default:
		set[fmt.Sprintf("?%T", e)] = true
	}
}

// resultOrigins follows result k of a call into the callee's return statements when it is a module function.
func (l *Layout) resultOrigins(fi *FuncInfo, e ast.Expr, k int, set, seen map[string]bool, depth int) {
	info := fi.Pkg.TypesInfo
	call, ok := ast.Unparen(e).(*ast.CallExpr)
	if !ok {
		// v, ok := m[k] / x.(T) / <-ch
		l.origins(fi, e, set, seen, depth)
		return
	}
	callee := Callee(info, call)
	if callee == nil {
		set["call:dynamic"] = true
		return
	}
	cfi := l.P.DeclOf(callee)
	name := FuncName(callee)
	if callee.Pkg() != nil && l.P.DeclOf(callee) == nil {
		name = callee.Pkg().Name() + "." + name
	}
	if cfi == nil || cfi.Decl.Body == nil || depth > 6 {
		set[fmt.Sprintf("call:%s#%d", name, k)] = true
		return
	}
	key := fmt.Sprintf("ret:%s#%d", name, k)
	if seen[key] {
		return
	}
	seen[key] = true
	sig := callee.Type().(*types.Signature)
	found := false
	ast.Inspect(cfi.Decl.Body, func(n ast.Node) bool {
		if _, ok := n.(*ast.FuncLit); ok {
			return false
		}
		rs, ok := n.(*ast.ReturnStmt)
		if !ok {
			return true
		}
		found = true
		switch {
		case len(rs.Results) == sig.Results().Len() && k < len(rs.Results):
			l.origins(cfi, rs.Results[k], set, seen, depth+1)
		case len(rs.Results) == 1:
			l.resultOrigins(cfi, rs.Results[0], k, set, seen, depth+1)
		case len(rs.Results) == 0 && k < sig.Results().Len():
			// naked return: named result
			set["?named-result:"+name] = true
		}
		return true
	})
	if !found {
		set[fmt.Sprintf("call:%s#%d", name, k)] = true
	}
}

// ---------- provenance: Sinks ----------

// Sinks describes where the value of the (read) expression e goes, as a sorted set of leaves:
//
//	field:T.f[ via <callee>#i ...]   stored into field f of struct T (assignment or composite literal),
//	                                  possibly after passing through call argument i of the listed callees
//	                                  (innermost first); "[k]" after the field marks element k of an array literal
//	cmp:<const>                       compared (== / != / switch case) with a constant
//	cond                              used in a condition without a constant operand
//	arg:<callee>#i                    passed to an external / not followed call whose result is dropped
//	make-len / index / return:<fn>#k / ?<why>
//
// Locals are followed through all their uses, results through the call sites' left-hand sides.
func (l *Layout) Sinks(fi *FuncInfo, e ast.Expr) []string {
	set := map[string]bool{}
	l.sinks(fi, e, "", set, map[string]bool{}, 0)
	var out []string
	for k := range set {
		out = append(out, k)
	}
	sort.Strings(out)
	return out
}

func withVia(leaf, via string) string {
	if via == "" {
		return leaf
	}
	return leaf + " via " + via
}

func addVia(via, step string) string {
	if via == "" {
		return step
	}
	return via + " " + step
}

func (l *Layout) sinks(fi *FuncInfo, e ast.Node, via string, set, seen map[string]bool, depth int) {
	if depth > 10 {
		set["?depth"] = true
		return
	}
	info := fi.Pkg.TypesInfo
	pm := l.parentMap(fi)
	parent := pm[e]
	switch p := parent.(type) {
	case *ast.ParenExpr:
		l.sinks(fi, p, via, set, seen, depth)
	case *ast.CallExpr:
		// conversion?
		if tv, ok := info.Types[p.Fun]; ok && tv.IsType() {
			l.sinks(fi, p, via, set, seen, depth)
			return
		}
		if ast.Node(p.Fun) == e {
			set["?called"] = true
			return
		}
		argIdx := -1
		for i, a := range p.Args {
			if ast.Node(a) == e {
				argIdx = i
			}
		}
		if id, ok := ast.Unparen(p.Fun).(*ast.Ident); ok {
			if b, ok := info.Uses[id].(*types.Builtin); ok {
				switch b.Name() {
				case "make":
					set[withVia("make-len", via)] = true
				case "len", "cap":
					set[withVia("len", via)] = true
				case "append", "min", "max":
					l.sinks(fi, p, addVia(via, b.Name()), set, seen, depth+1)
				default:
					set[withVia("arg:builtin."+b.Name(), via)] = true
				}
				return
			}
		}
		callee := Callee(info, p)
		name := "dynamic"
		if callee != nil {
			name = FuncName(callee)
			if l.P.DeclOf(callee) == nil && callee.Pkg() != nil {
				name = callee.Pkg().Name() + "." + name
			}
		}
		step := fmt.Sprintf("%s#%d", name, argIdx)
		if argIdx < 0 {
			// receiver of a method call
			step = name + "#recv"
		}
		// does the call produce a value that is used?
		if _, isStmt := pm[p].(*ast.ExprStmt); isStmt {
			set[withVia("arg:"+step, via)] = true
			return
		}
		l.sinks(fi, p, addVia(via, step), set, seen, depth+1)
	case *ast.SelectorExpr:
		if ast.Node(p.X) == e {
			// receiver of a method call: the value flows into the call's result
			if call, ok := pm[p].(*ast.CallExpr); ok && ast.Node(call.Fun) == ast.Node(p) {
				if sel := info.Selections[p]; sel != nil && sel.Kind() == types.MethodVal {
					name := p.Sel.Name
					if fn, ok := sel.Obj().(*types.Func); ok {
						name = FuncName(fn)
						if l.P.DeclOf(fn) == nil && fn.Pkg() != nil {
							name = fn.Pkg().Name() + "." + name
						}
					}
					if _, isStmt := pm[call].(*ast.ExprStmt); isStmt {
						set[withVia("arg:"+name+"#recv", via)] = true
						return
					}
					l.sinks(fi, call, addVia(via, name+"#recv"), set, seen, depth+1)
					return
				}
			}
			// field of the value
			l.sinks(fi, p, via, set, seen, depth)
			return
		}
		l.sinks(fi, p, via, set, seen, depth)
	case *ast.KeyValueExpr:
		if ast.Node(p.Value) != e {
			set["?key"] = true
			return
		}
		lit, _ := pm[p].(*ast.CompositeLit)
		if lit != nil {
			if id, ok := p.Key.(*ast.Ident); ok {
				if f, ok := info.Uses[id].(*types.Var); ok && f.IsField() {
					set[withVia("field:"+namedOf(info.TypeOf(lit))+"."+f.Name(), via)] = true
					return
				}
			}
		}
		set["?keyvalue"] = true
	case *ast.CompositeLit:
		// positional element: array/slice element k, or struct field k
		k := -1
		for i, el := range p.Elts {
			if ast.Node(el) == e {
				k = i
			}
		}
		t := info.TypeOf(p)
		if st, ok := t.Underlying().(*types.Struct); ok && k >= 0 && k < st.NumFields() {
			set[withVia("field:"+namedOf(t)+"."+st.Field(k).Name(), via)] = true
			return
		}
		l.sinks(fi, p, addVia(via, fmt.Sprintf("[%d]", k)), set, seen, depth+1)
	case *ast.AssignStmt:
		idx := -1
		for i, r := range p.Rhs {
			if ast.Node(r) == e {
				idx = i
			}
		}
		if idx < 0 {
			set["?lhs"] = true
			return
		}
		if len(p.Lhs) != len(p.Rhs) {
			set["?multi-assign"] = true
			return
		}
		l.sinkTarget(fi, p.Lhs[idx], via, set, seen, depth)
	case *ast.ValueSpec:
		for i, v := range p.Values {
			if ast.Node(v) == e && i < len(p.Names) && len(p.Names) == len(p.Values) {
				l.sinkTarget(fi, p.Names[i], via, set, seen, depth)
				return
			}
		}
		set["?valuespec"] = true
	case *ast.BinaryExpr:
		other := p.X
		if ast.Node(p.X) == e {
			other = p.Y
		}
		switch p.Op {
		case token.EQL, token.NEQ, token.LSS, token.LEQ, token.GTR, token.GEQ:
			if tv, ok := info.Types[other]; ok && tv.Value != nil {
				set[withVia("cmp"+p.Op.String()+":"+tv.Value.ExactString(), via)] = true
			} else {
				set[withVia("cond", via)] = true
			}
		case token.LAND, token.LOR:
			set[withVia("cond", via)] = true
		default:
			step := "op" + p.Op.String()
			if tv, ok := info.Types[other]; ok && tv.Value != nil {
				step += tv.Value.ExactString()
			}
			l.sinks(fi, p, addVia(via, step), set, seen, depth+1)
		}
	case *ast.UnaryExpr:
		l.sinks(fi, p, via, set, seen, depth+1)
	case *ast.IndexExpr:
		if ast.Node(p.Index) == e {
			set[withVia("index", via)] = true
			return
		}
		l.sinks(fi, p, via, set, seen, depth+1)
	case *ast.SliceExpr:
		if ast.Node(p.X) == e {
			l.sinks(fi, p, via, set, seen, depth+1)
			return
		}
		set[withVia("slice-bound", via)] = true
	case *ast.ReturnStmt:
		k := -1
		for i, r := range p.Results {
			if ast.Node(r) == e {
				k = i
			}
		}
		if l.enclosingLit(fi, p) != nil {
			set[withVia("return:func-literal", via)] = true
			return
		}
		key := fmt.Sprintf("ret:%s#%d", fi.Name(), k)
		if seen[key+"|"+via] {
			return
		}
		seen[key+"|"+via] = true
		if c := l.ctx; c != nil && c.Callee == fi {
			// per-call-site view: the value returns to the call site the buffer came through
			l.ctx = c.Outer
			l.resultSinks(c.Site.Caller, c.Site.Call, k, via, set, seen, depth+1)
			l.ctx = c
			return
		}
		sites := l.CallSites(fi.Obj)
		if len(sites) == 0 || fi.Obj.Exported() {
			set[withVia(fmt.Sprintf("return:%s#%d", fi.Name(), k), via)] = true
		}
		for _, s := range sites {
			l.resultSinks(s.Caller, s.Call, k, via, set, seen, depth+1)
		}
	case *ast.IfStmt, *ast.ForStmt:
		set[withVia("cond", via)] = true
	case *ast.SwitchStmt:
		// tag of a switch: compared with the case constants
		if ast.Node(p.Tag) == e {
			for _, c := range p.Body.List {
				for _, ce := range c.(*ast.CaseClause).List {
					if tv, ok := info.Types[ce]; ok && tv.Value != nil {
						set[withVia("cmp==:"+tv.Value.ExactString(), via)] = true
					}
				}
			}
			return
		}
		set[withVia("cond", via)] = true
	case *ast.CaseClause:
		set[withVia("cond", via)] = true
	case *ast.RangeStmt:
		if ast.Node(p.X) == e {
			if p.Value != nil {
				l.sinkTarget(fi, p.Value, addVia(via, "range"), set, seen, depth+1)
			} else {
				set[withVia("range", via)] = true
			}
			return
		}
		set["?range"] = true
	case *ast.ExprStmt:
		set[withVia("dropped", via)] = true
	case *ast.StarExpr, *ast.TypeAssertExpr:
		l.sinks(fi, p, via, set, seen, depth+1)
	case *ast.IncDecStmt, *ast.SendStmt, *ast.GoStmt, *ast.DeferStmt:
		set[fmt.Sprintf("?%T", p)] = true
	default:
		set[fmt.Sprintf("?%T", parent)] = true
	}
}

// sinkTarget handles a value stored into an assignable expression.
func (l *Layout) sinkTarget(fi *FuncInfo, lhs ast.Expr, via string, set, seen map[string]bool, depth int) {
	info := fi.Pkg.TypesInfo
	lhs = ast.Unparen(lhs)
	if id, ok := lhs.(*ast.Ident); ok && id.Name == "_" {
		set[withVia("dropped", via)] = true
		return
	}
	if f := FieldOf(info, lhs); f != nil {
		se := lhs.(*ast.SelectorExpr)
		set[withVia("field:"+namedOf(info.TypeOf(se.X))+"."+f.Name(), via)] = true
		return
	}
	if ix, ok := lhs.(*ast.IndexExpr); ok {
		sub := map[string]bool{}
		l.sinkTarget(fi, ix.X, via, sub, seen, depth+1)
		for k := range sub {
			set[k+"[]"] = true
		}
		return
	}
	if st, ok := lhs.(*ast.StarExpr); ok {
		l.sinkTarget(fi, st.X, via, set, seen, depth+1)
		return
	}
	v := VarOf(info, lhs)
	if v == nil {
		set["?target"] = true
		return
	}
	if v.Pkg() != nil && v.Parent() == v.Pkg().Scope() {
		set[withVia("var:"+v.Pkg().Name()+"."+v.Name(), via)] = true
		return
	}
	key := fmt.Sprintf("v%d|%s", v.Pos(), via)
	if seen[key] {
		return
	}
	seen[key] = true
	l.scanLocals(fi)
	// named result: flows to the callers
	sig := fi.Obj.Type().(*types.Signature)
	for k := 0; k < sig.Results().Len(); k++ {
		if sig.Results().At(k) == v {
			for _, s := range l.CallSites(fi.Obj) {
				l.resultSinks(s.Caller, s.Call, k, via, set, seen, depth+1)
			}
		}
	}
	us := l.uses[fi][v]
	if len(us) == 0 {
		set[withVia("unused", via)] = true
	}
	for _, u := range us {
		l.sinks(fi, u, via, set, seen, depth+1)
	}
}

// resultSinks follows result k of a call at a call site.
func (l *Layout) resultSinks(fi *FuncInfo, call *ast.CallExpr, k int, via string, set, seen map[string]bool, depth int) {
	pm := l.parentMap(fi)
	var node ast.Node = call
	parent := pm[node]
	for {
		if pe, ok := parent.(*ast.ParenExpr); ok {
			node, parent = pe, pm[pe]
			continue
		}
		break
	}
	switch p := parent.(type) {
	case *ast.AssignStmt:
		if len(p.Rhs) == 1 && len(p.Lhs) > 1 {
			if k < len(p.Lhs) {
				l.sinkTarget(fi, p.Lhs[k], via, set, seen, depth+1)
			}
			return
		}
	case *ast.ValueSpec:
		if len(p.Values) == 1 && len(p.Names) > 1 {
			if k < len(p.Names) {
				l.sinkTarget(fi, p.Names[k], via, set, seen, depth+1)
			}
			return
		}
	case *ast.ReturnStmt:
		if len(p.Results) == 1 {
			// return f(): result k is forwarded as result k
			if l.enclosingLit(fi, p) != nil {
				set[withVia("return:func-literal", via)] = true
				return
			}
			key := fmt.Sprintf("fwd:%s#%d|%s", fi.Name(), k, via)
			if seen[key] {
				return
			}
			seen[key] = true
			sites := l.CallSites(fi.Obj)
			if len(sites) == 0 || fi.Obj.Exported() {
				set[withVia(fmt.Sprintf("return:%s#%d", fi.Name(), k), via)] = true
			}
			for _, s := range sites {
				l.resultSinks(s.Caller, s.Call, k, via, set, seen, depth+1)
			}
			return
		}
	}
	if k == 0 {
		l.sinks(fi, node, via, set, seen, depth+1)
		return
	}
	set["?result-position"] = true
}

// ---------- matching ----------

// LayoutMismatch is one disagreement found by MatchLayout.
type LayoutMismatch struct {
	Reader *LayoutEntry
	Writer *LayoutEntry
	Why    string
}

// MatchLayout matches every constant-offset reader entry to the writer entry
// that produces those bytes: equal offset, width and byte order for integer
// fields; containment for raw byte ranges (a reader may look at single bytes
// of a range the writer copies as a whole). It also reports overlapping
// constant writer ranges.
func MatchLayout(writers, readers []*LayoutEntry) (pairs map[*LayoutEntry]*LayoutEntry, problems []LayoutMismatch) {
	pairs = map[*LayoutEntry]*LayoutEntry{}
	for _, r := range readers {
		if !r.OffKnown || r.Width < 0 {
			continue
		}
		var best *LayoutEntry
		why := "no writer entry produces these bytes"
		for _, w := range writers {
			if !w.OffKnown {
				continue
			}
			if w.Off == r.Off && w.Width == r.Width {
				if w.Kind == "uint" || r.Kind == "uint" {
					if w.Kind != r.Kind && w.Width > 1 {
						why = fmt.Sprintf("writer stores %s but reader decodes %s", w.Kind, r.Kind)
						continue
					}
					if w.Endian != r.Endian {
						why = fmt.Sprintf("byte order differs: written %s, read %s", w.Endian, r.Endian)
						best = nil
						problems = append(problems, LayoutMismatch{r, w, why})
						goto next
					}
				}
				best = w
				break
			}
			// containment of a raw range
			if (w.Kind == "bytes") && w.Width >= 0 && w.Off <= r.Off && r.Off+r.Width <= w.Off+w.Width && r.Kind != "uint" {
				best = w
				break
			}
			if w.Off == r.Off && w.Width >= 0 && w.Width != r.Width {
				why = fmt.Sprintf("width differs at offset %d: written %d bytes, read %d bytes", r.Off, w.Width, r.Width)
			} else if w.Width >= 0 && w.Off < r.Off+r.Width && r.Off < w.Off+w.Width && best == nil {
				why = fmt.Sprintf("reader range [%d,%d) straddles writer range [%d,%d)", r.Off, r.Off+r.Width, w.Off, w.Off+w.Width)
			}
		}
		if best == nil {
			problems = append(problems, LayoutMismatch{r, nil, why})
			continue
		}
		pairs[r] = best
	next:
	}
	// overlap among constant writer ranges
	var cw []*LayoutEntry
	for _, w := range writers {
		if w.OffKnown && w.Width >= 0 {
			cw = append(cw, w)
		}
	}
	sort.SliceStable(cw, func(i, j int) bool { return cw[i].Off < cw[j].Off })
	for i := 0; i < len(cw); i++ {
		for j := i + 1; j < len(cw); j++ {
			if cw[j].Off == cw[i].Off && cw[j].Width == cw[i].Width {
				continue // same range: alternatives in exclusive arms (judged by the caller's semantic table)
			}
			if cw[j].Off < cw[i].Off+cw[i].Width {
				problems = append(problems, LayoutMismatch{nil, cw[j], fmt.Sprintf("writer ranges overlap: [%d,%d) and [%d,%d)", cw[i].Off, cw[i].Off+cw[i].Width, cw[j].Off, cw[j].Off+cw[j].Width)})
			}
		}
	}
	return pairs, problems
}
