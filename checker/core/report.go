package core

import (
	"bufio"
	"encoding/json"
	"fmt"
	"os"
	"path/filepath"
	"sort"
	"strings"
	"time"
)

// Status of one obligation.
type Status string

const (
	StOK        Status = "discharged"
	StFail      Status = "VIOLATED"
	StUndecided Status = "UNDECIDED"
	StInfo      Status = "not-judged"
)

// Ob is one rule instance ("obligation"), keyed by rule id + construct.
type Ob struct {
	Rule   string `json:"rule"`
	Key    string `json:"construct"`
	Pos    string `json:"pos"`
	Status Status `json:"verdict"`
	Detail string `json:"detail,omitempty"`
	// filled by Finish
	Known string `json:"known_finding,omitempty"`
}

// RuleInfo describes a rule and its hand-confirmed instance minimum.
type RuleInfo struct {
	ID   string `json:"id"`
	Text string `json:"text"`
	Min  int    `json:"min_instances"`
	N    int    `json:"instances"`
}

// Report collects the verdicts of one property check.
type Report struct {
	Prop        string
	Tier        string
	Seed        int64
	Level       string
	Start       time.Time
	VerifDir    string
	Obs         []Ob
	Rules       []*RuleInfo
	NotCovered  []string
	Assumptions []string
	Trusted     []string
	Exhaustive  bool
	Cells       int // table cells / paths / pairs evaluated (measured)
	Analysed    map[string]bool
	Configs     []string
	PkgCount    int
	Extra       map[string]any
	CheckerCmd  string
	canaryFired int
	canaryTotal int
}

// NewReport starts a report.
func NewReport(prop, tier string, seed int64, verifDir string) *Report {
	return &Report{Prop: prop, Tier: tier, Seed: seed, Level: "other", Start: time.Now(), VerifDir: verifDir,
		Analysed: map[string]bool{}, Extra: map[string]any{}}
}

// Rule declares a rule with its text and minimum instance count.
func (r *Report) Rule(id, text string, min int) {
	r.Rules = append(r.Rules, &RuleInfo{ID: id, Text: text, Min: min})
}

func (r *Report) add(rule, key, pos string, st Status, detail string) {
	r.Obs = append(r.Obs, Ob{Rule: rule, Key: key, Pos: pos, Status: st, Detail: detail})
}

// OK records a discharged obligation.
func (r *Report) OK(rule, key, pos, detail string) { r.add(rule, key, pos, StOK, detail) }

// Fail records a violated obligation.
func (r *Report) Fail(rule, key, pos, detail string) { r.add(rule, key, pos, StFail, detail) }

// Undecided records an obligation the engine cannot classify (fails closed).
func (r *Report) Undecided(rule, key, pos, detail string) { r.add(rule, key, pos, StUndecided, detail) }

// Info records a listed, not judged item (does not count as an obligation).
func (r *Report) Info(rule, key, pos, detail string) { r.add(rule, key, pos, StInfo, detail) }

// Check records OK or Fail.
func (r *Report) Check(ok bool, rule, key, pos, okDetail, failDetail string) bool {
	if ok {
		r.OK(rule, key, pos, okDetail)
	} else {
		r.Fail(rule, key, pos, failDetail)
	}
	return ok
}

// Saw records that a function was analysed.
func (r *Report) Saw(names ...string) {
	for _, n := range names {
		r.Analysed[n] = true
	}
}

// Canary records the outcome of a canary pair: the violating fixture must be
// flagged (bad=true) and the clean fixture must pass (good=true).
func (r *Report) Canary(rule, name string, flaggedBad, passedGood bool) {
	r.canaryTotal++
	if flaggedBad && passedGood {
		r.canaryFired++
		return
	}
	d := "canary " + name + ": "
	if !flaggedBad {
		d += "violating fixture was NOT flagged; "
	}
	if !passedGood {
		d += "clean fixture was flagged; "
	}
	r.Fail(rule, "canary:"+name, "checker/canary", d+"the rule implementation is broken")
}

// Suffix386 marks obligations established on the linux/386 build configuration.
const Suffix386 = " [linux/386]"

// Merge appends the obligations of another report of the same property (run on another build configuration).
func (r *Report) Merge(o *Report, suffix string) {
	for _, ob := range o.Obs {
		ob.Key += suffix
		r.Obs = append(r.Obs, ob)
	}
	r.Cells += o.Cells
	for a := range o.Analysed {
		r.Analysed[a] = true
	}
	r.canaryTotal += o.canaryTotal
	r.canaryFired += o.canaryFired
}

type knownFinding struct {
	Property string `json:"property"`
	Rule     string `json:"rule"`
	Key      string `json:"key"`
	What     string `json:"what"`
	ShownBy  string `json:"shown_by,omitempty"`
	Status   string `json:"status"`
	Commit   string `json:"commit,omitempty"`
}

func loadKnown(path string) ([]knownFinding, error) {
	f, err := os.Open(path)
	if err != nil {
		if os.IsNotExist(err) {
			return nil, nil
		}
		return nil, err
	}
	defer f.Close()
	var out []knownFinding
	sc := bufio.NewScanner(f)
	sc.Buffer(make([]byte, 1<<20), 1<<20)
	for sc.Scan() {
		line := strings.TrimSpace(sc.Text())
		if line == "" || strings.HasPrefix(line, "#") {
			continue
		}
		var k knownFinding
		if err := json.Unmarshal([]byte(line), &k); err != nil {
			return nil, fmt.Errorf("known_findings.jsonl: %w", err)
		}
		out = append(out, k)
	}
	return out, sc.Err()
}

// Replay is the content of a violation replay file.
type Replay struct {
	Property string `json:"property"`
	Rule     string `json:"rule"`
	RuleText string `json:"rule_text"`
	Key      string `json:"construct"`
	Pos      string `json:"pos"`
	Verdict  Status `json:"verdict"`
	Detail   string `json:"detail"`
	Tier     string `json:"tier"`
	Repo     string `json:"repo"`
}

// Finish applies instance minima and known findings, prints verdict lines,
// writes the evidence file and returns the process exit code.
func (r *Report) Finish(repo string) int {
	ruleText := map[string]string{}
	byRule := map[string]*RuleInfo{}
	for _, ri := range r.Rules {
		ruleText[ri.ID] = ri.Text
		byRule[ri.ID] = ri
	}
	for i := range r.Obs {
		if r.Obs[i].Status == StInfo || strings.HasPrefix(r.Obs[i].Key, "canary:") {
			continue
		}
		if ri := byRule[r.Obs[i].Rule]; ri != nil {
			ri.N++
		} else {
			ri := &RuleInfo{ID: r.Obs[i].Rule, Text: "(undeclared rule)", N: 1}
			r.Rules = append(r.Rules, ri)
			byRule[ri.ID] = ri
		}
	}
	for _, ri := range r.Rules {
		if ri.N < ri.Min {
			r.Fail(ri.ID, "instance-minimum", "-", fmt.Sprintf("rule matched %d constructs, hand-confirmed minimum is %d: the rule lost its anchors (renamed/removed code?) and would pass vacuously", ri.N, ri.Min))
		}
	}

	known, kerr := loadKnown(filepath.Join(r.VerifDir, "known_findings.jsonl"))
	if kerr != nil {
		r.Fail(r.Prop+".infra", "known_findings.jsonl", "-", kerr.Error())
	}
	openKF := map[string]*knownFinding{}
	for i := range known {
		k := &known[i]
		if k.Property == r.Prop && k.Status == "open" {
			openKF[k.Rule+"|"+k.Key] = k
		}
	}

	vdir := filepath.Join(r.VerifDir, "evidence", "violations")
	_ = os.MkdirAll(vdir, 0o755)
	// clear stale replay files of this property
	if old, _ := filepath.Glob(filepath.Join(vdir, r.Prop+"-*.json")); old != nil {
		for _, f := range old {
			_ = os.Remove(f)
		}
	}

	violations, obligations, discharged, knownHits := 0, 0, 0, 0
	seenKF := map[string]bool{}
	perRuleViol := map[string]int{}
	var lines []string
	for i := range r.Obs {
		o := &r.Obs[i]
		if o.Status == StInfo {
			continue
		}
		obligations++
		switch o.Status {
		case StOK:
			discharged++
		case StFail, StUndecided:
			if k := openKF[o.Rule+"|"+strings.TrimSuffix(o.Key, Suffix386)]; k != nil && o.Status == StFail {
				o.Known = k.What
				knownHits++
				if kk := o.Rule + "|" + strings.TrimSuffix(o.Key, Suffix386); !seenKF[kk] {
					seenKF[kk] = true
					lines = append(lines, fmt.Sprintf("KNOWN-FINDING: property=%s %s [%s | %s @ %s]", r.Prop, k.What, o.Rule, o.Key, o.Pos))
				}
				continue
			}
			violations++
			perRuleViol[o.Rule]++
			if perRuleViol[o.Rule] > 5 {
				continue // counted, but only the first five constructs per rule get a replay file and a line
			}
			path := filepath.Join(vdir, fmt.Sprintf("%s-%d.json", r.Prop, violations))
			rp := Replay{Property: r.Prop, Rule: o.Rule, RuleText: ruleText[o.Rule], Key: o.Key, Pos: o.Pos, Verdict: o.Status, Detail: o.Detail, Tier: r.Tier, Repo: repo}
			b, _ := json.MarshalIndent(rp, "", " ")
			_ = os.WriteFile(path, b, 0o644)
			fmt.Fprintf(os.Stderr, "%s %s | %s @ %s: %s\n", o.Status, o.Rule, o.Key, o.Pos, o.Detail)
			lines = append(lines, fmt.Sprintf("VIOLATION property=%s replay=%s", r.Prop, path))
		}
	}
	for rule, n := range perRuleViol {
		if n > 5 {
			fmt.Fprintf(os.Stderr, "%s: %d further failing constructs not listed individually\n", rule, n-5)
		}
	}
	for key, k := range openKF {
		if !seenKF[key] {
			fmt.Fprintf(os.Stderr, "note: known finding %s no longer reproduces (%s); consider marking it fixed\n", key, k.What)
		}
	}
	for _, l := range lines {
		fmt.Println(l)
	}

	// evidence
	if r.Assumptions == nil {
		r.Assumptions = []string{"the Go type checker (go/types via go/packages) and go/cfg / go/ssa construction are correct"}
	}
	if r.Trusted == nil {
		r.Trusted = []string{}
	}
	if r.NotCovered == nil {
		r.NotCovered = []string{}
	}
	samples := r.samples()
	var ruleTexts []string
	for _, ri := range r.Rules {
		ruleTexts = append(ruleTexts, fmt.Sprintf("%s: %s", ri.ID, ri.Text))
	}
	var analysed []string
	for a := range r.Analysed {
		analysed = append(analysed, a)
	}
	sort.Strings(analysed)
	distinct := map[string]bool{}
	for _, o := range r.Obs {
		if o.Status != StInfo && !strings.HasPrefix(o.Key, "canary:") && o.Key != "instance-minimum" {
			distinct[o.Rule+"|"+o.Key] = true
		}
	}
	cov := map[string]any{
		"obligations":         obligations,
		"discharged":          discharged,
		"known_findings_hit":  knownHits,
		"explanation":         strings.Join(ruleTexts, "\n"),
		"rule":                "one obligation per (rule, resolved construct) pair found in /repo's current source; distinct_nontrivial counts distinct (rule, construct) keys excluding canaries and instance-minimum bookkeeping; evaluations additionally counts table cells / paths / access pairs enumerated by the engines",
		"evaluations":         max(r.Cells, 0) + obligations,
		"distinct_nontrivial": len(distinct),
		"checker_cmd":         r.CheckerCmd,
		"trusted_base":        r.Trusted,
		"exhaustive":          r.Exhaustive,
		"samples":             samples,
		"rules":               r.Rules,
		"analysed_functions":  analysed,
		"packages_loaded":     r.PkgCount,
		"build_configs":       r.Configs,
		"not_covered":         r.NotCovered,
		"canaries":            map[string]int{"run": r.canaryTotal, "ok": r.canaryFired},
	}
	for k, v := range r.Extra {
		cov[k] = v
	}
	ev := map[string]any{
		"property_id": r.Prop,
		"tier":        r.Tier,
		"seed":        r.Seed,
		"level":       r.Level,
		"coverage":    cov,
		"assumptions": r.Assumptions,
		"wall_s":      time.Since(r.Start).Seconds(),
		"violations":  violations,
	}
	b, _ := json.MarshalIndent(ev, "", " ")
	_ = os.MkdirAll(filepath.Join(r.VerifDir, "evidence"), 0o755)
	if err := os.WriteFile(filepath.Join(r.VerifDir, "evidence", r.Prop+".json"), b, 0o644); err != nil {
		fmt.Fprintln(os.Stderr, "cannot write evidence:", err)
		return 1
	}
	fmt.Fprintf(os.Stderr, "%s %s: %d obligations, %d discharged, %d known-finding hits, %d violations, %d cells, %.1fs\n",
		r.Prop, r.Tier, obligations, discharged, knownHits, violations, r.Cells, time.Since(r.Start).Seconds())
	if violations > 0 {
		return 1
	}
	return 0
}

func (r *Report) samples() []Ob {
	// all failing/undecided first, then a spread of discharged ones per rule (seed rotates the pick)
	var out []Ob
	perRule := map[string]int{}
	for _, o := range r.Obs {
		if o.Status == StFail || o.Status == StUndecided {
			out = append(out, o)
		}
	}
	n := len(r.Obs)
	if n == 0 {
		return out
	}
	off := int(r.Seed % int64(n))
	if off < 0 {
		off = -off
	}
	for i := 0; i < n; i++ {
		o := r.Obs[(i+off)%n]
		if o.Status == StFail || o.Status == StUndecided {
			continue
		}
		if perRule[o.Rule] >= 4 {
			continue
		}
		perRule[o.Rule]++
		out = append(out, o)
	}
	if len(out) > 60 {
		out = out[:60]
	}
	return out
}
