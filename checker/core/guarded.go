package core

import (
	"go/ast"
	"go/types"
)

// Engine E3: GuardedBy(V, L) with caller-held ("entry") locks.

// GuardSpec says which fields of a struct must only be touched with the
// struct's own mutex field held (same base expression: x.f under x.mu).
type GuardSpec struct {
	Fields  map[*types.Var]bool
	MuField *types.Var
}

// GuardResult is the verdict for one access.
type GuardResult struct {
	Body   *Body
	Access FieldAccess
	// Status: "held" (lock acquired in this body), "entry" (every caller holds it),
	// "ctor" (object not yet published), "unguarded", "wrong-mode" (write under a read lock)
	Status string
	Why    string
}

// OK reports whether the access is guarded.
func (r GuardResult) OK() bool {
	return r.Status == "held" || r.Status == "entry" || r.Status == "ctor"
}

// Guard runs GuardedBy checks over a fixed set of bodies (which is also the
// universe in which call sites are looked up).
type Guard struct {
	P      *Program
	Bodies []*Body
	locks  map[*Graph]*LockInfo
	byDecl map[*types.Func]*Body
}

// NewGuard prepares a guard analysis over bodies.
func NewGuard(p *Program, bodies []*Body) *Guard {
	g := &Guard{P: p, Bodies: bodies, locks: map[*Graph]*LockInfo{}, byDecl: map[*types.Func]*Body{}}
	for _, b := range bodies {
		if b.Lit == nil {
			g.byDecl[b.Owner.Obj] = b
		}
	}
	return g
}

// LocksOf returns the (cached) lockset analysis of a body.
func (gd *Guard) LocksOf(b *Body) *LockInfo {
	if li := gd.locks[b.G]; li != nil {
		return li
	}
	li := Locks(b.G)
	gd.locks[b.G] = li
	return li
}

func modeOK(mode string, needW bool) bool {
	return mode == "W" || (mode == "R" && !needW)
}

// rootIdent returns the identifier at the root of a selector chain.
func rootIdent(e ast.Expr) *ast.Ident {
	for {
		e = ast.Unparen(e)
		switch x := e.(type) {
		case *ast.Ident:
			return x
		case *ast.SelectorExpr:
			e = x.X
		case *ast.StarExpr:
			e = x.X
		default:
			return nil
		}
	}
}

// HeldFor decides whether base.<mu> is held (in write mode if needW) when node
// executes in body b, looking through caller-held locks of unexported
// functions up to depth levels of callers.
func (gd *Guard) HeldFor(b *Body, node int, base ast.Expr, mu *types.Var, needW bool, depth int) (status, why string) {
	canon := CanonExpr(base)
	if canon == "" {
		return "unguarded", "the object expression is not a plain selector chain"
	}
	inst := canon + "." + mu.Name()
	li := gd.LocksOf(b)
	if m := li.HeldInst(node, inst); m != "" {
		if modeOK(m, needW) {
			return "held", ""
		}
		return "wrong-mode", "written while " + inst + " is only read-locked"
	}
	root := rootIdent(base)
	if root == nil {
		return "unguarded", inst + " is not held"
	}
	rv := VarOf(b.G.Info, root)
	// constructor: object allocated in this body and not yet published
	if rv != nil {
		if rhs, _ := b.G.UniqueDef(rv); rhs != nil && isAllocation(b.G.Info, rhs) && canon == root.Name {
			return "ctor", ""
		}
	}
	if b.Lit != nil {
		return "unguarded", inst + " is not held (function literal: runs with no lock inherited)"
	}
	if depth <= 0 {
		return "unguarded", inst + " is not held (caller chain too deep)"
	}
	// caller-held lock: the root must be the receiver or a parameter, the function unexported,
	// the function itself must not operate on the lock, and every call site must hold it.
	fn := b.Owner.Obj
	if fn.Exported() {
		return "unguarded", inst + " is not held and " + b.Label + " is exported (callers unknown)"
	}
	sig := fn.Type().(*types.Signature)
	argIdx := -2
	if sig.Recv() != nil && sig.Recv() == rv {
		argIdx = -1
	}
	for i := 0; i < sig.Params().Len(); i++ {
		if sig.Params().At(i) == rv {
			argIdx = i
		}
	}
	if argIdx == -2 {
		return "unguarded", inst + " is not held"
	}
	for _, o := range li.Ops {
		if o.Inst == inst {
			return "unguarded", inst + " is not held at this point although the function locks/unlocks it elsewhere"
		}
	}
	sites := CallSitesOf(gd.Bodies, fn)
	if len(sites) == 0 {
		return "unguarded", inst + " is not held and the function has no callers"
	}
	suffix := canon[len(root.Name):] // e.g. "" or ".sctpTransport"
	for _, s := range sites {
		if s.Kind != "call" {
			return "unguarded", "function is used as '" + s.Kind + "' in " + s.Body.Label + ": it would run without " + inst
		}
		var actual ast.Expr
		if argIdx == -1 {
			sel, ok := ast.Unparen(s.Call.Fun).(*ast.SelectorExpr)
			if !ok {
				return "unguarded", "call in " + s.Body.Label + " has no receiver expression"
			}
			actual = sel.X
		} else {
			if argIdx >= len(s.Call.Args) {
				return "unguarded", "variadic/short call in " + s.Body.Label
			}
			actual = s.Call.Args[argIdx]
		}
		ac := CanonExpr(actual)
		if ac == "" {
			return "unguarded", "caller " + s.Body.Label + " passes a computed object"
		}
		// rebuild the object expression in caller terms: actual + suffix
		st, w := gd.heldCanon(s.Body, s.Node, actual, ac+suffix, mu, needW, depth-1)
		if st != "held" && st != "entry" {
			return "unguarded", "caller " + s.Body.Label + ": " + w
		}
	}
	return "entry", ""
}

// heldCanon is HeldFor for a caller-side object given by its canonical string.
func (gd *Guard) heldCanon(b *Body, node int, actual ast.Expr, canon string, mu *types.Var, needW bool, depth int) (string, string) {
	inst := canon + "." + mu.Name()
	li := gd.LocksOf(b)
	if m := li.HeldInst(node, inst); m != "" {
		if modeOK(m, needW) {
			return "held", ""
		}
		return "wrong-mode", inst + " only read-locked"
	}
	if canon == CanonExpr(actual) {
		return gd.HeldFor(b, node, actual, mu, needW, depth)
	}
	return "unguarded", inst + " is not held"
}

func isAllocation(info *types.Info, e ast.Expr) bool {
	e = ast.Unparen(e)
	switch x := e.(type) {
	case *ast.UnaryExpr:
		_, ok := ast.Unparen(x.X).(*ast.CompositeLit)
		return ok
	case *ast.CompositeLit:
		return true
	case *ast.CallExpr:
		if id, ok := ast.Unparen(x.Fun).(*ast.Ident); ok {
			if b, ok := info.Uses[id].(*types.Builtin); ok && b.Name() == "new" {
				return true
			}
		}
	}
	return false
}

// Check evaluates the spec over all bodies.
func (gd *Guard) Check(spec GuardSpec) []GuardResult {
	var out []GuardResult
	for _, b := range gd.Bodies {
		if b.G == nil {
			continue
		}
		for _, a := range b.G.FieldAccesses(spec.Fields) {
			st, why := gd.HeldFor(b, a.Node, a.Base, spec.MuField, a.Write, 3)
			out = append(out, GuardResult{Body: b, Access: a, Status: st, Why: why})
		}
	}
	return out
}

// EntryHeld reports whether every call site of the (unexported) function of
// body b holds <recv>.<mu>; on success the returned LockInfo of b has the lock
// added to the locksets of all nodes not preceded by a release.
func (gd *Guard) EntryHeld(b *Body, mu *types.Var, class string) (*LockInfo, string, bool) {
	li := gd.LocksOf(b)
	if b.Lit != nil {
		return li, "", false
	}
	sig := b.Owner.Obj.Type().(*types.Signature)
	if sig.Recv() == nil || b.Owner.Decl.Recv == nil || len(b.Owner.Decl.Recv.List) == 0 || len(b.Owner.Decl.Recv.List[0].Names) == 0 {
		return li, "", false
	}
	recvIdent := b.Owner.Decl.Recv.List[0].Names[0]
	inst := recvIdent.Name + "." + mu.Name()
	if li.HeldInst(b.G.Entry, inst) != "" {
		return li, inst, true
	}
	st, _ := gd.HeldFor(b, b.G.Entry, recvIdent, mu, true, 3)
	if st != "entry" {
		return li, inst, false
	}
	li.AssumeEntryLock(inst, class, "W")
	return li, inst, true
}
