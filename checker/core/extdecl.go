package core

import (
	"go/ast"
	"go/types"

	"golang.org/x/tools/go/packages"
)

// ExternalFunc resolves a function or method ("f", "T.M") of a package outside
// the module (a dependency loaded with syntax by go/packages) so that an
// engine can analyse its source instead of trusting a transcription of its
// behaviour. The declaration is registered for DeclOf but not listed by AllFuncs.
func (p *Program) ExternalFunc(pkgPath, name string) *FuncInfo {
	pk := p.findImported(pkgPath)
	if pk == nil || pk.TypesInfo == nil {
		return nil
	}
	for _, f := range pk.Syntax {
		for _, d := range f.Decls {
			fd, ok := d.(*ast.FuncDecl)
			if !ok || fd.Body == nil {
				continue
			}
			obj, _ := pk.TypesInfo.Defs[fd.Name].(*types.Func)
			if obj == nil {
				continue
			}
			if FuncNameNoPtr(obj) != name {
				continue
			}
			fi := &FuncInfo{Obj: obj, Decl: fd, Pkg: pk}
			if p.ext == nil {
				p.ext = map[*types.Func]*FuncInfo{}
			}
			p.ext[obj] = fi
			ast.Inspect(fd.Body, func(n ast.Node) bool {
				if fl, ok := n.(*ast.FuncLit); ok {
					p.litOwner[fl] = fi
				}
				return true
			})
			return fi
		}
	}
	return nil
}

// FuncNameNoPtr renders "T.M" or "f" (pointer-ness of the receiver ignored).
func FuncNameNoPtr(fn *types.Func) string {
	sig, _ := fn.Type().(*types.Signature)
	if sig != nil && sig.Recv() != nil {
		t := sig.Recv().Type()
		if pt, ok := t.(*types.Pointer); ok {
			t = pt.Elem()
		}
		if n, ok := t.(*types.Named); ok {
			return n.Obj().Name() + "." + fn.Name()
		}
	}
	return fn.Name()
}

func (p *Program) findImported(pkgPath string) *packages.Package {
	seen := map[*packages.Package]bool{}
	var found *packages.Package
	var walk func(pk *packages.Package)
	walk = func(pk *packages.Package) {
		if found != nil || seen[pk] {
			return
		}
		seen[pk] = true
		if pk.PkgPath == pkgPath {
			found = pk
			return
		}
		for _, imp := range pk.Imports {
			walk(imp)
		}
	}
	for _, pk := range p.Pkgs {
		walk(pk)
	}
	return found
}
