package core

import (
	"go/ast"
	"go/constant"
	"go/token"
	"go/types"
	"sort"
	"strconv"
	"strings"
)

// Path-rule helpers shared by the gate/path/sibling properties (C11, C14,
// C24, C25): three-valued evaluation of branch conditions under a valuation of
// named boolean atoms, a fact-carrying path exploration (known nil / known
// non-nil variables), reaching definitions with their syntax, and a canonical
// rendering of expressions in which locals are replaced by their definitions.
//
// Everything here is additive; no existing engine file is modified.

// Truth values of the three-valued evaluation.
const (
	Unknown = -1
	False   = 0
	True    = 1
)

// AtomFn gives the assumed truth value of an atomic boolean sub-expression
// (a call, an identifier, a field...). ok=false means "not one of my atoms".
type AtomFn func(e ast.Expr) (val int, ok bool)

// Facts are per-path facts about pointer/interface/error variables.
type Facts struct {
	nilV    VarSet
	nonNilV VarSet
}

// IsNil / IsNonNil query the facts.
func (f Facts) IsNil(v *types.Var) bool    { return f.nilV.Has(v) }
func (f Facts) IsNonNil(v *types.Var) bool { return f.nonNilV.Has(v) }

func (f Facts) withNil(v *types.Var) Facts {
	return Facts{nilV: f.nilV.with(v), nonNilV: f.nonNilV.without(v)}
}
func (f Facts) withNonNil(v *types.Var) Facts {
	return Facts{nilV: f.nilV.without(v), nonNilV: f.nonNilV.with(v)}
}
func (f Facts) forget(v *types.Var) Facts {
	return Facts{nilV: f.nilV.without(v), nonNilV: f.nonNilV.without(v)}
}
func (f Facts) key() string { return f.nilV.key() + "/" + f.nonNilV.key() }

// EvalBool evaluates a boolean expression three-valuedly: atoms through the
// AtomFn, nil tests through the facts, constants through the type checker,
// and ! && || structurally. Anything else is Unknown.
func EvalBool(info *types.Info, e ast.Expr, atoms AtomFn, f Facts) int {
	e = ast.Unparen(e)
	if atoms != nil {
		if v, ok := atoms(e); ok {
			return v
		}
	}
	if tv, ok := info.Types[e]; ok && tv.Value != nil && tv.Value.Kind() == constant.Bool {
		if constant.BoolVal(tv.Value) {
			return True
		}
		return False
	}
	switch x := e.(type) {
	case *ast.UnaryExpr:
		if x.Op == token.NOT {
			switch EvalBool(info, x.X, atoms, f) {
			case True:
				return False
			case False:
				return True
			}
		}
	case *ast.BinaryExpr:
		switch x.Op {
		case token.LAND:
			a, b := EvalBool(info, x.X, atoms, f), EvalBool(info, x.Y, atoms, f)
			if a == False || b == False {
				return False
			}
			if a == True && b == True {
				return True
			}
		case token.LOR:
			a, b := EvalBool(info, x.X, atoms, f), EvalBool(info, x.Y, atoms, f)
			if a == True || b == True {
				return True
			}
			if a == False && b == False {
				return False
			}
		case token.EQL, token.NEQ:
			if v, isEq, ok := NilTest(info, x); ok {
				switch {
				case f.IsNil(v):
					return b2t(isEq)
				case f.IsNonNil(v):
					return b2t(!isEq)
				}
			}
			// comparison of a boolean atom with a constant true/false
			for _, pair := range [][2]ast.Expr{{x.X, x.Y}, {x.Y, x.X}} {
				if tv, ok := info.Types[pair[1]]; ok && tv.Value != nil && tv.Value.Kind() == constant.Bool {
					a := EvalBool(info, pair[0], atoms, f)
					if a == Unknown {
						return Unknown
					}
					same := (a == True) == constant.BoolVal(tv.Value)
					return b2t(same == (x.Op == token.EQL))
				}
			}
		}
	}
	return Unknown
}

func b2t(b bool) int {
	if b {
		return True
	}
	return False
}

// refineByEdge adds the nil facts implied by taking an edge.
func refineByEdge(info *types.Info, cond ast.Expr, truth bool, f Facts) Facts {
	var nilVars, nonNil []*types.Var
	edgeFacts(info, cond, truth, &nilVars, &nonNil)
	for _, v := range nilVars {
		f = f.withNil(v)
	}
	for _, v := range nonNil {
		f = f.withNonNil(v)
	}
	return f
}

// Exploration is the result of Explore: for every node the distinct fact sets it is entered with.
type Exploration struct {
	G       *Graph
	Reached map[int][]Facts
}

// Has reports whether the node was reached at all.
func (x *Exploration) Has(n int) bool { return len(x.Reached[n]) > 0 }

// ExploreOpts parameterises Explore.
type ExploreOpts struct {
	Start     []int               // default: the function entry
	StartEdge []EdgeRef           // alternatively start on the targets of these edges (with the edge's facts applied)
	Atoms     AtomFn              // assumed truth of atomic conditions
	Init      Facts               // initial facts
	Avoid     func(node int) bool // reached but not expanded
	AvoidEdge func(from, idx int, e Edge) bool
	// Tag gives the assumed truth of a tag-switch case test `tag == caseExpr` (Unknown: explore both).
	Tag func(tag, caseExpr ast.Expr) int
}

// Explore walks the graph path-sensitively: an edge whose condition evaluates
// (under the atoms and the facts collected so far) to the opposite truth value
// is not taken. It is a may-analysis: every real execution consistent with the
// atoms follows explored edges only.
func (g *Graph) Explore(o ExploreOpts) *Exploration {
	x := &Exploration{G: g, Reached: map[int][]Facts{}}
	type item struct {
		n int
		f Facts
	}
	seen := map[string]bool{}
	var stack []item
	push := func(n int, f Facts) {
		k := strconv.Itoa(n) + "|" + f.key()
		if seen[k] {
			return
		}
		seen[k] = true
		x.Reached[n] = append(x.Reached[n], f)
		stack = append(stack, item{n, f})
	}
	step := func(from, idx int, e Edge, f Facts) {
		if o.AvoidEdge != nil && o.AvoidEdge(from, idx, e) {
			return
		}
		if e.Cond != nil && e.Tag == nil && e.Branch != 0 {
			switch EvalBool(g.Info, e.Cond, o.Atoms, f) {
			case True:
				if e.Branch == 2 {
					return
				}
			case False:
				if e.Branch == 1 {
					return
				}
			}
			f = refineByEdge(g.Info, e.Cond, e.Branch == 1, f)
		} else if e.Cond != nil && e.Tag != nil && e.Branch != 0 && o.Tag != nil {
			switch o.Tag(e.Tag, e.Cond) {
			case True:
				if e.Branch == 2 {
					return
				}
			case False:
				if e.Branch == 1 {
					return
				}
			}
		}
		push(e.To, f)
	}
	switch {
	case len(o.StartEdge) > 0:
		for _, er := range o.StartEdge {
			step(er.From, er.Idx, g.Nodes[er.From].Succs[er.Idx], o.Init)
		}
	case len(o.Start) > 0:
		for _, s := range o.Start {
			push(s, o.Init)
		}
	default:
		push(g.Entry, o.Init)
	}
	for len(stack) > 0 {
		c := stack[len(stack)-1]
		stack = stack[:len(stack)-1]
		if o.Avoid != nil && o.Avoid(c.n) {
			continue
		}
		node := g.Nodes[c.n]
		f := c.f
		if node.Ast != nil {
			vars, nils := assignedVars(g.Info, node.Ast)
			for _, v := range vars {
				f = f.forget(v)
			}
			for _, v := range nils {
				f = f.withNil(v)
			}
			for _, v := range nonNilAssigned(g.Info, node.Ast) {
				f = f.withNonNil(v)
			}
		}
		for i, e := range node.Succs {
			step(c.n, i, e, f)
		}
	}
	return x
}

// nonNilAssigned lists variables assigned a value that is certainly non-nil
// (address of a composite literal, errors.New / fmt.Errorf result).
func nonNilAssigned(info *types.Info, n ast.Node) []*types.Var {
	var out []*types.Var
	InspectShallow(n, func(x ast.Node) bool {
		as, ok := x.(*ast.AssignStmt)
		if !ok || len(as.Lhs) != len(as.Rhs) {
			return true
		}
		for i, l := range as.Lhs {
			if v := VarOf(info, l); v != nil && CertainlyNonNil(info, as.Rhs[i]) {
				out = append(out, v)
			}
		}
		return true
	})
	return out
}

// CertainlyNonNil recognises expressions that cannot be nil: &T{...},
// errors.New(...), fmt.Errorf(...), and package-level error variables whose
// initialiser is one of those (sentinel errors).
func CertainlyNonNil(info *types.Info, e ast.Expr) bool {
	e = ast.Unparen(e)
	switch x := e.(type) {
	case *ast.UnaryExpr:
		if x.Op == token.AND {
			if _, ok := ast.Unparen(x.X).(*ast.CompositeLit); ok {
				return true
			}
		}
	case *ast.CallExpr:
		if fn := Callee(info, x); fn != nil && fn.Pkg() != nil {
			switch fn.Pkg().Path() + "." + fn.Name() {
			case "errors.New", "fmt.Errorf":
				return true
			}
		}
	}
	return false
}

// SentinelError reports whether e denotes a package-level variable of the
// module whose declaration initialises it with errors.New / fmt.Errorf (so it
// is non-nil unless reassigned; reassignment is checked by the caller's
// who-may-write sweep if it matters).
func (p *Program) SentinelError(info *types.Info, e ast.Expr) bool {
	e = ast.Unparen(e)
	var obj types.Object
	switch x := e.(type) {
	case *ast.Ident:
		obj = info.Uses[x]
	case *ast.SelectorExpr:
		obj = info.Uses[x.Sel]
	}
	v, ok := obj.(*types.Var)
	if !ok || v.Pkg() == nil || v.Parent() != v.Pkg().Scope() {
		return false
	}
	for _, pk := range p.Pkgs {
		if pk.Types != v.Pkg() {
			continue
		}
		for _, f := range pk.Syntax {
			for _, d := range f.Decls {
				gd, ok := d.(*ast.GenDecl)
				if !ok || gd.Tok != token.VAR {
					continue
				}
				for _, s := range gd.Specs {
					vs := s.(*ast.ValueSpec)
					for i, nm := range vs.Names {
						if pk.TypesInfo.Defs[nm] == types.Object(v) && i < len(vs.Values) {
							return CertainlyNonNil(pk.TypesInfo, vs.Values[i])
						}
					}
				}
			}
		}
	}
	return false
}

// ---------------------------------------------------------------------------
// Reaching definitions with syntax

// Def is one definition of a variable.
type Def struct {
	Node  int            // graph node of the definition (-1: parameter / captured / zero value)
	Rhs   ast.Expr       // defining expression (nil for range variables, inc/dec, parameters)
	Idx   int            // result index when Rhs is a multi-value call (-1 for 1:1)
	Range *ast.RangeStmt // set when the variable is the key/value of this range statement
	IsKey bool
	Param bool // no definition found on some path: parameter, captured or zero value
}

// defsAt returns the definitions node n gives to v.
func (g *Graph) defsAt(n *Node, v *types.Var, rangeOf map[*ast.Ident]*ast.RangeStmt) []Def {
	var out []Def
	if n.Ast == nil {
		return nil
	}
	if id, ok := n.Ast.(*ast.Ident); ok {
		if rs := rangeOf[id]; rs != nil && (g.Info.Defs[id] == types.Object(v) || g.Info.Uses[id] == types.Object(v)) {
			return []Def{{Node: n.ID, Range: rs, IsKey: rs.Key == ast.Expr(id), Idx: -1}}
		}
		return nil
	}
	InspectShallow(n.Ast, func(x ast.Node) bool {
		switch s := x.(type) {
		case *ast.AssignStmt:
			for i, l := range s.Lhs {
				if VarOf(g.Info, l) != v {
					continue
				}
				switch {
				case s.Tok != token.ASSIGN && s.Tok != token.DEFINE:
					out = append(out, Def{Node: n.ID, Idx: -1}) // op-assign
				case len(s.Rhs) == len(s.Lhs):
					out = append(out, Def{Node: n.ID, Rhs: s.Rhs[i], Idx: -1})
				case len(s.Rhs) == 1:
					out = append(out, Def{Node: n.ID, Rhs: s.Rhs[0], Idx: i})
				}
			}
		case *ast.IncDecStmt:
			if VarOf(g.Info, s.X) == v {
				out = append(out, Def{Node: n.ID, Idx: -1})
			}
		case *ast.ValueSpec:
			for i, nm := range s.Names {
				if g.Info.Defs[nm] != types.Object(v) {
					continue
				}
				switch {
				case len(s.Values) == len(s.Names):
					out = append(out, Def{Node: n.ID, Rhs: s.Values[i], Idx: -1})
				case len(s.Values) == 1:
					out = append(out, Def{Node: n.ID, Rhs: s.Values[0], Idx: i})
				default:
					out = append(out, Def{Node: n.ID, Idx: -1}) // zero value
				}
			}
		}
		return true
	})
	return out
}

func (g *Graph) rangeIdents() map[*ast.Ident]*ast.RangeStmt {
	m := map[*ast.Ident]*ast.RangeStmt{}
	ast.Inspect(g.Body, func(n ast.Node) bool {
		if fl, ok := n.(*ast.FuncLit); ok && ast.Node(fl) != g.Fn {
			return false
		}
		if rs, ok := n.(*ast.RangeStmt); ok {
			if id, ok := rs.Key.(*ast.Ident); ok {
				m[id] = rs
			}
			if id, ok := rs.Value.(*ast.Ident); ok {
				m[id] = rs
			}
		}
		return true
	})
	return m
}

// DefsReaching returns the definitions of v that reach node `at` (backwards
// walk over the CFG; a path from the entry without definition yields a Param entry).
func (g *Graph) DefsReaching(at int, v *types.Var) []Def {
	rangeOf := g.rangeIdents()
	var out []Def
	seen := map[int]bool{}
	param := false
	var walk func(n int)
	walk = func(n int) {
		if n == g.Entry {
			param = true
		}
		for _, p := range g.Nodes[n].Preds {
			if seen[p] {
				continue
			}
			seen[p] = true
			if ds := g.defsAt(g.Nodes[p], v, rangeOf); len(ds) > 0 {
				out = append(out, ds...)
				continue
			}
			walk(p)
		}
	}
	walk(at)
	if param || len(out) == 0 {
		out = append(out, Def{Node: -1, Idx: -1, Param: true})
	}
	return out
}

// AllDefs lists every definition of v inside the graph.
func (g *Graph) AllDefs(v *types.Var) []Def {
	rangeOf := g.rangeIdents()
	var out []Def
	for _, n := range g.Nodes {
		out = append(out, g.defsAt(n, v, rangeOf)...)
	}
	return out
}

// ---------------------------------------------------------------------------
// Canonical rendering

// Canon renders expression e (evaluated at node `at`) with the receiver as
// $recv, parameters as $p0.., locals replaced by their reaching definition
// (depth-bounded; several definitions are rendered as φ(a|b)), package-level
// objects as pkg.Name. Two expressions with equal Canon compute the same
// value from the same inputs, whatever the locals are called.
func (g *Graph) Canon(at int, e ast.Expr) string { return g.canon(at, e, 6) }

func (g *Graph) sigVars() (recv *types.Var, params []*types.Var) {
	sig := g.Sig()
	if sig == nil {
		return nil, nil
	}
	for i := 0; i < sig.Params().Len(); i++ {
		params = append(params, sig.Params().At(i))
	}
	if fd, ok := g.Fn.(*ast.FuncDecl); ok && fd.Recv != nil && len(fd.Recv.List) == 1 && len(fd.Recv.List[0].Names) == 1 {
		recv, _ = g.Info.Defs[fd.Recv.List[0].Names[0]].(*types.Var)
	}
	if fl, ok := g.Fn.(*ast.FuncLit); ok {
		// parameters of a literal are declared in its type
		params = nil
		for _, f := range fl.Type.Params.List {
			for _, nm := range f.Names {
				if v, ok := g.Info.Defs[nm].(*types.Var); ok {
					params = append(params, v)
				}
			}
		}
	}
	return recv, params
}

// ParamVars returns the receiver (nil if none / a literal) and the parameter variables of the graph's function.
func (g *Graph) ParamVars() (recv *types.Var, params []*types.Var) { return g.sigVars() }

// ParamIndex returns the index of v among the function's parameters (-1 if none); recv reports the receiver.
func (g *Graph) ParamIndex(v *types.Var) (idx int, isRecv bool) {
	recv, params := g.sigVars()
	if v != nil && v == recv {
		return -1, true
	}
	for i, p := range params {
		if p == v {
			return i, false
		}
	}
	return -1, false
}

func (g *Graph) canon(at int, e ast.Expr, depth int) string {
	if e == nil {
		return ""
	}
	e = ast.Unparen(e)
	switch x := e.(type) {
	case *ast.Ident:
		switch o := g.Info.Uses[x].(type) {
		case *types.Var:
			if idx, isRecv := g.ParamIndex(o); isRecv {
				return "$recv"
			} else if idx >= 0 {
				// a parameter that is reassigned is rendered through its definitions
				if at >= 0 {
					ds := g.DefsReaching(at, o)
					if len(ds) == 1 && ds[0].Param {
						return "$p" + strconv.Itoa(idx)
					}
				} else {
					return "$p" + strconv.Itoa(idx)
				}
			}
			if o.Pkg() != nil && o.Parent() == o.Pkg().Scope() {
				return o.Pkg().Name() + "." + o.Name()
			}
			if depth <= 0 || at < 0 {
				return "local:" + o.Name()
			}
			ds := g.DefsReaching(at, o)
			var alts []string
			for _, d := range ds {
				alts = append(alts, g.canonDef(d, o, depth-1))
			}
			sort.Strings(alts)
			alts = uniq(alts)
			if len(alts) == 1 {
				return alts[0]
			}
			return "φ(" + strings.Join(alts, "|") + ")"
		case *types.Const:
			if o.Pkg() != nil {
				return o.Pkg().Name() + "." + o.Name()
			}
			return o.Name()
		case *types.Func:
			if o.Pkg() != nil {
				return o.Pkg().Name() + "." + o.Name()
			}
			return o.Name()
		case *types.Nil:
			return "nil"
		case *types.TypeName:
			return o.Name()
		case *types.Builtin:
			return o.Name()
		}
		if o, ok := g.Info.Defs[x].(*types.Var); ok {
			return "local:" + o.Name()
		}
		return x.Name
	case *ast.SelectorExpr:
		if id, ok := x.X.(*ast.Ident); ok {
			if _, isPkg := g.Info.Uses[id].(*types.PkgName); isPkg {
				return id.Name + "." + x.Sel.Name
			}
		}
		return g.canon(at, x.X, depth) + "." + x.Sel.Name
	case *ast.CallExpr:
		var args []string
		for _, a := range x.Args {
			args = append(args, g.canon(at, a, depth))
		}
		s := g.canon(at, x.Fun, depth) + "(" + strings.Join(args, ", ")
		if x.Ellipsis.IsValid() {
			s += "..."
		}
		return s + ")"
	case *ast.BasicLit:
		return x.Value
	case *ast.UnaryExpr:
		return x.Op.String() + g.canon(at, x.X, depth)
	case *ast.StarExpr:
		return "*" + g.canon(at, x.X, depth)
	case *ast.BinaryExpr:
		return "(" + g.canon(at, x.X, depth) + " " + x.Op.String() + " " + g.canon(at, x.Y, depth) + ")"
	case *ast.IndexExpr:
		return g.canon(at, x.X, depth) + "[" + g.canon(at, x.Index, depth) + "]"
	case *ast.SliceExpr:
		return g.canon(at, x.X, depth) + "[" + g.canon(at, x.Low, depth) + ":" + g.canon(at, x.High, depth) + "]"
	case *ast.CompositeLit:
		var el []string
		for _, e := range x.Elts {
			el = append(el, g.canon(at, e, depth))
		}
		tn := ""
		if x.Type != nil {
			tn = types.ExprString(x.Type)
		}
		return tn + "{" + strings.Join(el, ", ") + "}"
	case *ast.KeyValueExpr:
		k := types.ExprString(x.Key)
		return k + ": " + g.canon(at, x.Value, depth)
	case *ast.FuncLit:
		return "func-literal"
	case *ast.TypeAssertExpr:
		return g.canon(at, x.X, depth) + ".(" + types.ExprString(x.Type) + ")"
	case *ast.ArrayType, *ast.MapType, *ast.FuncType, *ast.InterfaceType, *ast.StructType, *ast.ChanType:
		return types.ExprString(x)
	}
	return types.ExprString(e)
}

func (g *Graph) canonDef(d Def, v *types.Var, depth int) string {
	switch {
	case d.Param:
		if idx, isRecv := g.ParamIndex(v); isRecv {
			return "$recv"
		} else if idx >= 0 {
			return "$p" + strconv.Itoa(idx)
		}
		return "free:" + v.Name()
	case d.Range != nil:
		which := "value"
		if d.IsKey {
			which = "key"
		}
		return "range-" + which + "(" + g.canon(d.Node, d.Range.X, depth) + ")"
	case d.Rhs == nil:
		return "updated:" + v.Name()
	case d.Idx >= 0:
		return g.canon(d.Node, d.Rhs, depth) + "#" + strconv.Itoa(d.Idx)
	}
	return g.canon(d.Node, d.Rhs, depth)
}

func uniq(s []string) []string {
	var out []string
	for i, x := range s {
		if i == 0 || x != s[i-1] {
			out = append(out, x)
		}
	}
	return out
}

// ---------------------------------------------------------------------------
// Small matchers

// NodeContaining returns the graph node whose AST contains the given sub-node (-1 if none).
func (g *Graph) NodeContaining(target ast.Node) int {
	for _, n := range g.Nodes {
		if n.Ast == nil {
			continue
		}
		if n.Ast.Pos() <= target.Pos() && target.End() <= n.Ast.End() {
			found := false
			InspectShallow(n.Ast, func(x ast.Node) bool {
				if x == target {
					found = true
				}
				return !found
			})
			if found {
				return n.ID
			}
		}
	}
	return -1
}

// CalleeIs reports whether call's resolved callee is the function pkgPath.name
// (methods: name is "T.M", matched on the receiver's named type).
func CalleeIs(info *types.Info, call *ast.CallExpr, pkgPath, name string) bool {
	fn := Callee(info, call)
	if fn == nil || fn.Pkg() == nil || fn.Pkg().Path() != pkgPath {
		return false
	}
	if i := strings.Index(name, "."); i >= 0 {
		sig := fn.Type().(*types.Signature)
		if sig.Recv() == nil || fn.Name() != name[i+1:] {
			return false
		}
		t := sig.Recv().Type()
		if p, ok := t.(*types.Pointer); ok {
			t = p.Elem()
		}
		n, ok := t.(*types.Named)
		return ok && n.Obj().Name() == name[:i]
	}
	return fn.Type().(*types.Signature).Recv() == nil && fn.Name() == name
}

// FuncLitsIn lists the function literals directly inside n (not nested ones).
func FuncLitsIn(n ast.Node) []*ast.FuncLit {
	var out []*ast.FuncLit
	InspectShallow(n, func(x ast.Node) bool {
		if fl, ok := x.(*ast.FuncLit); ok && ast.Node(fl) != n {
			out = append(out, fl)
		}
		return true
	})
	return out
}

// UsesVar reports whether expression/node n mentions variable v (not descending into function literals).
func UsesVar(info *types.Info, n ast.Node, v *types.Var) bool {
	found := false
	InspectShallow(n, func(x ast.Node) bool {
		if id, ok := x.(*ast.Ident); ok && (info.Uses[id] == types.Object(v) || info.Defs[id] == types.Object(v)) {
			found = true
		}
		return !found
	})
	return found
}

// ReadsField reports whether node n contains a selection of field f (any base), not descending into literals.
func ReadsField(info *types.Info, n ast.Node, f *types.Var) bool {
	found := false
	InspectShallow(n, func(x ast.Node) bool {
		if se, ok := x.(*ast.SelectorExpr); ok && FieldOf(info, se) == f {
			found = true
		}
		return !found
	})
	return found
}

// FactsNonNil returns f extended with "v is non-nil" for each v.
func FactsNonNil(f Facts, vs ...*types.Var) Facts {
	for _, v := range vs {
		f = f.withNonNil(v)
	}
	return f
}

// FactsNil returns f extended with "v is nil" for each v.
func FactsNil(f Facts, vs ...*types.Var) Facts {
	for _, v := range vs {
		f = f.withNil(v)
	}
	return f
}

// SuccIDs lists the successor node ids of n.
func (g *Graph) SuccIDs(n int) []int {
	var out []int
	for _, e := range g.Nodes[n].Succs {
		out = append(out, e.To)
	}
	return out
}

// EdgeImplies reports whether taking an edge on which cond evaluated to truth
// implies that some atomic sub-condition accepted by isAtom is TRUE
// (decomposing ! && ||).
func EdgeImplies(cond ast.Expr, truth bool, isAtom func(ast.Expr) bool) bool {
	cond = ast.Unparen(cond)
	switch x := cond.(type) {
	case *ast.UnaryExpr:
		if x.Op == token.NOT {
			return EdgeImpliesNot(x.X, truth, isAtom)
		}
	case *ast.BinaryExpr:
		switch x.Op {
		case token.LAND:
			if truth {
				return EdgeImplies(x.X, true, isAtom) || EdgeImplies(x.Y, true, isAtom)
			}
			return false
		case token.LOR:
			if truth {
				return EdgeImplies(x.X, true, isAtom) && EdgeImplies(x.Y, true, isAtom)
			}
			return false
		}
	}
	return truth && isAtom(cond)
}

// EdgeImpliesNot is EdgeImplies for the operand of a negation: `!e` evaluated
// to truth, i.e. e evaluated to !truth; it reports whether that implies an atom is TRUE.
func EdgeImpliesNot(e ast.Expr, truth bool, isAtom func(ast.Expr) bool) bool {
	e = ast.Unparen(e)
	switch x := e.(type) {
	case *ast.UnaryExpr:
		if x.Op == token.NOT {
			return EdgeImplies(x.X, truth, isAtom)
		}
	case *ast.BinaryExpr:
		// !(a || b) true  => a false and b false: no positive atom follows
		// !(a && b) false => a and b true
		if x.Op == token.LAND && !truth {
			return EdgeImplies(x.X, true, isAtom) || EdgeImplies(x.Y, true, isAtom)
		}
		return false
	}
	// !atom evaluated to truth: atom is !truth
	return !truth && isAtom(e)
}

// EdgeNilFacts returns the variables known to be nil / non-nil when an edge
// on which cond evaluated to truth is taken (decomposing ! && ||).
func EdgeNilFacts(info *types.Info, cond ast.Expr, truth bool) (nils, nonNils []*types.Var) {
	edgeFacts(info, cond, truth, &nils, &nonNils)
	return nils, nonNils
}

// WithLocalBools extends an AtomFn to boolean locals: an identifier that
// denotes a local variable with exactly one definition in g is given the
// three-valued value of its defining expression under the same atoms.
func (g *Graph) WithLocalBools(base AtomFn) AtomFn {
	var fn AtomFn
	depth := 0
	fn = func(e ast.Expr) (int, bool) {
		if base != nil {
			if v, ok := base(e); ok {
				return v, true
			}
		}
		id, ok := e.(*ast.Ident)
		if !ok || depth > 4 {
			return 0, false
		}
		v, _ := g.Info.Uses[id].(*types.Var)
		if v == nil || (v.Pkg() != nil && v.Parent() == v.Pkg().Scope()) {
			return 0, false
		}
		if b, ok := v.Type().Underlying().(*types.Basic); !ok || b.Kind() != types.Bool {
			return 0, false
		}
		ds := g.AllDefs(v)
		if len(ds) != 1 || ds[0].Rhs == nil || ds[0].Idx >= 0 {
			return 0, false
		}
		depth++
		val := EvalBool(g.Info, ds[0].Rhs, fn, Facts{})
		depth--
		if val == Unknown {
			return 0, false
		}
		return val, true
	}
	return fn
}
