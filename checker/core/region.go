package core

import "go/ast"

// GraphOfBlock builds (and caches) the graph of one block statement of a
// declared function, so that a rule can analyse a region (for instance the
// body of one loop) on its own. Variables defined outside the block are free;
// a branch statement that leaves the block (break/continue to an enclosing
// loop, goto) ends the path like a return.
func (p *Program) GraphOfBlock(owner *FuncInfo, blk *ast.BlockStmt) *Graph {
	if g := p.graphs[blk]; g != nil {
		return g
	}
	g := buildGraph(blk, blk, owner.Pkg.TypesInfo, owner)
	p.graphs[blk] = g
	return g
}
