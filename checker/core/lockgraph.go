package core

import (
	"go/ast"
	"go/constant"
	"go/token"
	"go/types"
	"sort"
	"strconv"
	"strings"

	"golang.org/x/tools/go/packages"
)

// Engine E3 (interprocedural part): analysis units (declared functions and
// function literals), static call sites, transitive "acquires" / "blocks"
// summaries, the module lock-order graph and must-held entry locksets.
//
// Everything is resolved through go/types objects; instance identity of a
// mutex is tracked as a selector path relative to the receiver / parameters of
// the enclosing declared function ("$recv.mu", "$p0.lock"), which is what makes
// "the same instance is acquired twice" provable across a static call.

// UnitKind says how a unit comes to run.
type UnitKind int

const (
	UDecl     UnitKind = iota // declared function or method
	ULitCall                  // function literal invoked in place: func(){...}()
	ULitOnce                  // function literal passed to (*sync.Once).Do (runs synchronously in the caller)
	ULitDefer                 // defer func(){...}()
	ULitGo                    // go func(){...}()
	ULitValue                 // function literal used as a value (callback, stored, passed on)
	ULitDead                  // literal in unreachable code
)

func (k UnitKind) String() string {
	return [...]string{"decl", "lit-call", "lit-once", "lit-defer", "lit-go", "lit-value", "lit-dead"}[k]
}

// LUnit is one analysis unit.
type LUnit struct {
	ID         int
	Decl       *FuncInfo    // the declared function (units of kind UDecl)
	Lit        *ast.FuncLit // the literal (other kinds)
	Owner      *FuncInfo    // enclosing declared function
	Parent     *LUnit       // lexically enclosing unit (nil for UDecl)
	ParentNode int          // node of Parent.G that contains the literal
	Kind       UnitKind
	Name       string
	G          *Graph
	LI         *LockInfo
	Calls      []*LCall
	Children   []*LUnit
	// ViaGoOnce is set for a ULitOnce literal whose Once.Do call is itself the operand of a go statement.
	ViaGo bool
}

// Pos is the unit's position.
func (u *LUnit) Pos() token.Pos {
	if u.Lit != nil {
		return u.Lit.Pos()
	}
	return u.Decl.Decl.Pos()
}

// CallMode distinguishes synchronous calls from go / defer.
type CallMode int

const (
	CallSync CallMode = iota
	CallGo
	CallDefer
)

// LCall is one call expression inside a unit.
type LCall struct {
	Node   int
	Call   *ast.CallExpr
	Fn     *types.Func // static callee (nil for dynamic calls, conversions, builtins)
	Callee *LUnit      // callee unit when Fn is declared in the analysed packages
	Mode   CallMode
	// Targets lists every unit the call may run synchronously: the static callee, the literal bound to a
	// single-assignment local function variable, or (interface method calls) the module methods that implement it.
	Targets []*LUnit
	// Dyn is "" for statically resolved calls, "iface" for interface calls resolved by class hierarchy, "local-closure" for calls of a local literal.
	Dyn string
}

// Acq is one (transitive) lock acquisition of a unit.
type Acq struct {
	Class string
	Mode  string // "W" or "R"
	Rel   string // instance path relative to the owner's receiver/params ("$recv.mu"); "" when unknown
	Pos   token.Pos
	Chain []string // units from the summarised one down to the one holding the Lock call
}

// BlockOp is one (transitive) blocking operation of a unit.
type BlockOp struct {
	Kind  string // recv, send, select, range-chan, WaitGroup.Wait, Cond.Wait
	What  string // resolved description of the channel / object ("PeerConnection.isCloseDone", "local")
	Pos   token.Pos
	Chain []string
	// Need: the operation only executes when these bool parameters (index -> value) of the summarised
	// function have the given value (derived from branches on the bare parameter).
	Need map[int]bool
}

// LockProgram is the interprocedural lock view of the analysed packages.
type LockProgram struct {
	P         *Program
	Units     []*LUnit
	ByDecl    map[*types.Func]*LUnit
	ByLit     map[*ast.FuncLit]*LUnit
	AddrTaken map[*types.Func]bool // function/method used as a value somewhere
	DynMethod map[*types.Func]bool // method that implements a method of some interface seen by the module
	Classes   map[string]*types.Var
	// CallerHolds lists exported functions documented as "the caller holds the lock": they are not treated as
	// lock-free entry points; their entry lockset is the intersection over the module's call sites like an unexported helper's.
	CallerHolds map[*types.Func]bool

	include    func(*packages.Package) bool
	named      []*types.Named
	closureVar map[*LUnit]*types.Var // literal bound to a single-assignment local variable that is called somewhere
	defs       map[*types.Var]ast.Expr
	defsSeen   map[*FuncInfo]bool

	acq       map[*LUnit][]Acq
	blk       map[*LUnit][]BlockOp
	entryMust map[*LUnit]map[string]string
	fresh     map[*FuncInfo]map[*types.Var]bool
	bparams   map[*FuncInfo]map[int]*types.Var
	dyns      map[*LUnit][]dynOp
	initOnly  map[*LUnit]bool
	// Problems lists constructs the engine cannot model (callers must fail closed).
	Problems []string
}

// BuildLockProgram builds units, lock info and call sites for every function of the packages accepted by include.
func BuildLockProgram(p *Program, include func(*packages.Package) bool) *LockProgram {
	lp := &LockProgram{P: p, ByDecl: map[*types.Func]*LUnit{}, ByLit: map[*ast.FuncLit]*LUnit{},
		AddrTaken: map[*types.Func]bool{}, DynMethod: map[*types.Func]bool{}, Classes: map[string]*types.Var{}, include: include}
	for _, fi := range p.AllFuncs() {
		if fi.Decl.Body == nil || (include != nil && !include(fi.Pkg)) {
			continue
		}
		g := p.GraphOf(fi)
		if g == nil {
			continue
		}
		u := &LUnit{ID: len(lp.Units), Decl: fi, Owner: fi, Kind: UDecl, Name: fi.Name(), G: g}
		if rel := strings.TrimPrefix(strings.TrimPrefix(fi.Pkg.PkgPath, ModPath), "/"); rel != "" {
			u.Name = rel + "." + u.Name
		}
		lp.Units = append(lp.Units, u)
		lp.ByDecl[fi.Obj] = u
		lp.addLits(u, fi)
	}
	for _, u := range lp.Units {
		u.LI = Locks(u.G)
		for _, o := range u.LI.Ops {
			if o.Field != nil {
				lp.Classes[o.Class] = o.Field
			}
		}
	}
	lp.findCalls()
	lp.findAddrTaken(include)
	lp.findDynMethods(include)
	return lp
}

// addLits creates units for the literals lexically inside u (recursively).
func (lp *LockProgram) addLits(u *LUnit, owner *FuncInfo) {
	n := 0
	var lits []*ast.FuncLit
	where := map[*ast.FuncLit]int{}
	ctx := map[*ast.FuncLit]ast.Node{}
	for _, nd := range u.G.Nodes {
		if nd.Ast == nil {
			continue
		}
		InspectShallow(nd.Ast, func(x ast.Node) bool {
			if fl, ok := x.(*ast.FuncLit); ok && ast.Node(fl) != nd.Ast {
				if _, dup := where[fl]; !dup {
					lits = append(lits, fl)
					where[fl] = nd.ID
					ctx[fl] = nd.Ast
				}
			}
			return true
		})
	}
	// literals the graph does not contain (dead code)
	var body *ast.BlockStmt
	if u.Lit != nil {
		body = u.Lit.Body
	} else {
		body = u.Decl.Decl.Body
	}
	ast.Inspect(body, func(x ast.Node) bool {
		if fl, ok := x.(*ast.FuncLit); ok {
			if _, seen := where[fl]; !seen {
				lits = append(lits, fl)
				where[fl] = -1
			}
			return false
		}
		return true
	})
	sort.Slice(lits, func(i, j int) bool { return lits[i].Pos() < lits[j].Pos() })
	live := u.G.Live()
	for _, fl := range lits {
		n++
		g := lp.P.GraphOfLit(fl)
		if g == nil {
			continue
		}
		c := &LUnit{ID: len(lp.Units), Lit: fl, Owner: owner, Parent: u, ParentNode: where[fl], Name: u.Name + "$" + strconv.Itoa(n), G: g}
		if where[fl] < 0 || !live[where[fl]] {
			c.Kind = ULitDead
		} else {
			c.Kind, c.ViaGo = litKind(u.G.Info, ctx[fl], fl)
		}
		lp.Units = append(lp.Units, c)
		lp.ByLit[fl] = c
		u.Children = append(u.Children, c)
		lp.addLits(c, owner)
	}
}

// litKind classifies how literal fl is used inside the statement/expression node nd.
func litKind(info *types.Info, nd ast.Node, fl *ast.FuncLit) (UnitKind, bool) {
	kind := ULitValue
	viaGo := false
	switch s := nd.(type) {
	case *ast.GoStmt:
		if ast.Unparen(s.Call.Fun) == ast.Expr(fl) {
			return ULitGo, false
		}
		if isOnceDo(info, s.Call) && len(s.Call.Args) == 1 && ast.Unparen(s.Call.Args[0]) == ast.Expr(fl) {
			return ULitOnce, true
		}
	case *ast.DeferStmt:
		if ast.Unparen(s.Call.Fun) == ast.Expr(fl) {
			return ULitDefer, false
		}
	}
	InspectShallow(nd, func(x ast.Node) bool {
		call, ok := x.(*ast.CallExpr)
		if !ok {
			return true
		}
		if ast.Unparen(call.Fun) == ast.Expr(fl) {
			kind = ULitCall
		}
		if isOnceDo(info, call) && len(call.Args) == 1 && ast.Unparen(call.Args[0]) == ast.Expr(fl) {
			kind = ULitOnce
		}
		return true
	})
	if kind == ULitCall {
		// a deferred / go'd call nested deeper (defer wrapper(func(){..}())) is not distinguished: the literal call itself is synchronous
		return kind, false
	}
	return kind, viaGo
}

func isOnceDo(info *types.Info, call *ast.CallExpr) bool {
	fn := Callee(info, call)
	if fn == nil || fn.Pkg() == nil || fn.Pkg().Path() != "sync" || fn.Name() != "Do" {
		return false
	}
	return recvNamed(fn) == "Once"
}

func recvNamed(fn *types.Func) string {
	sig, _ := fn.Type().(*types.Signature)
	if sig == nil || sig.Recv() == nil {
		return ""
	}
	t := sig.Recv().Type()
	if p, ok := t.(*types.Pointer); ok {
		t = p.Elem()
	}
	if n, ok := t.(*types.Named); ok {
		return n.Obj().Name()
	}
	return ""
}

func (lp *LockProgram) findCalls() {
	for _, u := range lp.Units {
		for _, nd := range u.G.Nodes {
			if nd.Ast == nil {
				continue
			}
			var top *ast.CallExpr
			mode := CallSync
			switch s := nd.Ast.(type) {
			case *ast.GoStmt:
				top, mode = s.Call, CallGo
			case *ast.DeferStmt:
				top, mode = s.Call, CallDefer
			}
			for _, call := range CallsIn(nd.Ast) {
				lc := &LCall{Node: nd.ID, Call: call, Fn: Callee(u.G.Info, call)}
				if call == top {
					lc.Mode = mode
				}
				if lc.Fn != nil {
					lc.Callee = lp.ByDecl[lc.Fn]
				}
				if lc.Callee != nil {
					lc.Targets = []*LUnit{lc.Callee}
				} else {
					lp.resolveDyn(u, lc)
				}
				u.Calls = append(u.Calls, lc)
			}
		}
	}
}

// resolveDyn fills Targets for calls of local closures and interface methods.
func (lp *LockProgram) resolveDyn(u *LUnit, lc *LCall) {
	info := u.G.Info
	if lc.Fn == nil {
		id, ok := ast.Unparen(lc.Call.Fun).(*ast.Ident)
		if !ok {
			return
		}
		v, _ := info.Uses[id].(*types.Var)
		if v == nil {
			return
		}
		if lit := lp.closureOf(u.Owner, v); lit != nil {
			if t := lp.ByLit[lit]; t != nil {
				lc.Targets, lc.Dyn = []*LUnit{t}, "local-closure"
				if lp.closureVar == nil {
					lp.closureVar = map[*LUnit]*types.Var{}
				}
				lp.closureVar[t] = v
			}
		}
		return
	}
	sig, _ := lc.Fn.Type().(*types.Signature)
	if sig == nil || sig.Recv() == nil {
		return
	}
	it, isI := sig.Recv().Type().Underlying().(*types.Interface)
	if !isI {
		return
	}
	// only interfaces declared by the module are resolved by class hierarchy; for general-purpose interfaces
	// (io.Writer, io.Closer, logging, interceptor) every module method of that name would be a callee, which is noise.
	in, _ := sig.Recv().Type().(*types.Named)
	if in == nil || in.Obj().Pkg() == nil || !strings.HasPrefix(in.Obj().Pkg().Path(), ModPath) {
		return
	}
	lc.Dyn = "iface"
	for _, n := range lp.namedTypes() {
		if !types.Implements(types.NewPointer(n), it) && !types.Implements(n, it) {
			continue
		}
		for j := 0; j < n.NumMethods(); j++ {
			if m := n.Method(j); m.Name() == lc.Fn.Name() {
				if t := lp.ByDecl[m.Origin()]; t != nil {
					lc.Targets = append(lc.Targets, t)
				}
			}
		}
	}
}

// closureOf returns the literal bound to local variable v when v is defined once by `v := func(){}` / `var v = func(){}`
// inside owner and never assigned again.
func (lp *LockProgram) closureOf(owner *FuncInfo, v *types.Var) *ast.FuncLit {
	fl, _ := ast.Unparen(lp.singleDef(owner, v)).(*ast.FuncLit)
	return fl
}

// singleDef returns the right-hand side of the only definition of local variable v inside owner
// (nil when v is assigned more than once, address-taken, or defined by a multi-value assignment).
func (lp *LockProgram) singleDef(owner *FuncInfo, v *types.Var) ast.Expr {
	if lp.defs == nil {
		lp.defs = map[*types.Var]ast.Expr{}
		lp.defsSeen = map[*FuncInfo]bool{}
	}
	if !lp.defsSeen[owner] {
		lp.defsSeen[owner] = true
		info := owner.Pkg.TypesInfo
		assigned := map[*types.Var]int{}
		cand := map[*types.Var]ast.Expr{}
		ast.Inspect(owner.Decl.Body, func(n ast.Node) bool {
			switch s := n.(type) {
			case *ast.AssignStmt:
				for i, l := range s.Lhs {
					lv := VarOf(info, l)
					if lv == nil {
						continue
					}
					assigned[lv]++
					if len(s.Rhs) == len(s.Lhs) {
						cand[lv] = s.Rhs[i]
					}
				}
			case *ast.IncDecStmt:
				if lv := VarOf(info, s.X); lv != nil {
					assigned[lv] += 2
				}
			case *ast.RangeStmt:
				for _, e := range []ast.Expr{s.Key, s.Value} {
					if e != nil {
						if lv := VarOf(info, e); lv != nil {
							assigned[lv] += 2
						}
					}
				}
			case *ast.ValueSpec:
				for i, nm := range s.Names {
					lv, _ := info.Defs[nm].(*types.Var)
					if lv == nil {
						continue
					}
					if len(s.Values) == len(s.Names) {
						assigned[lv]++
						cand[lv] = s.Values[i]
					} else if len(s.Values) > 0 {
						assigned[lv] += 2
					}
				}
			case *ast.UnaryExpr:
				if s.Op == token.AND {
					if lv := VarOf(info, s.X); lv != nil {
						assigned[lv] += 2 // address taken: may be reassigned through the pointer
					}
				}
			}
			return true
		})
		for lv, e := range cand {
			if assigned[lv] == 1 {
				lp.defs[lv] = e
			}
		}
	}
	return lp.defs[v]
}

// describe names the object an expression denotes by resolved construct: "Type.field" for a field (also when
// read through a single-assignment local copy), "call:F" for a call result, otherwise "local <type>".
func (lp *LockProgram) describe(u *LUnit, e ast.Expr) string {
	info := u.G.Info
	e = ast.Unparen(e)
	for depth := 0; depth < 3; depth++ {
		id, ok := e.(*ast.Ident)
		if !ok {
			break
		}
		v := VarOf(info, id)
		if v == nil {
			break
		}
		rhs := lp.singleDef(u.Owner, v)
		if rhs == nil {
			break
		}
		e = ast.Unparen(rhs)
	}
	d := chanDesc(info, e)
	if d == "local" {
		if tv, ok := info.Types[e]; ok && tv.Type != nil {
			d = "local " + types.TypeString(tv.Type, func(p *types.Package) string { return p.Name() })
		}
	}
	return d
}

func (lp *LockProgram) namedTypes() []*types.Named {
	if lp.named != nil {
		return lp.named
	}
	for _, pk := range lp.P.Pkgs {
		if lp.include != nil && !lp.include(pk) {
			continue
		}
		sc := pk.Types.Scope()
		for _, nm := range sc.Names() {
			tn, ok := sc.Lookup(nm).(*types.TypeName)
			if !ok {
				continue
			}
			n, ok := tn.Type().(*types.Named)
			if !ok || n.NumMethods() == 0 || n.TypeParams().Len() > 0 {
				continue
			}
			if _, isI := n.Underlying().(*types.Interface); isI {
				continue
			}
			lp.named = append(lp.named, n)
		}
	}
	return lp.named
}

// findAddrTaken marks functions referenced other than as the callee of a call.
func (lp *LockProgram) findAddrTaken(include func(*packages.Package) bool) {
	for _, pk := range lp.P.Pkgs {
		if include != nil && !include(pk) {
			continue
		}
		callee := map[*ast.Ident]bool{}
		for _, f := range pk.Syntax {
			ast.Inspect(f, func(n ast.Node) bool {
				if call, ok := n.(*ast.CallExpr); ok {
					switch fx := ast.Unparen(call.Fun).(type) {
					case *ast.Ident:
						callee[fx] = true
					case *ast.SelectorExpr:
						callee[fx.Sel] = true
					}
				}
				return true
			})
		}
		for id, obj := range pk.TypesInfo.Uses {
			if fn, ok := obj.(*types.Func); ok && !callee[id] {
				lp.AddrTaken[fn.Origin()] = true
			}
		}
	}
}

// findDynMethods marks methods of module types that implement a method of an interface the module mentions.
func (lp *LockProgram) findDynMethods(include func(*packages.Package) bool) {
	var ifaces []*types.Interface
	seen := map[*types.Interface]bool{}
	addI := func(t types.Type) {
		if t == nil {
			return
		}
		if it, ok := t.Underlying().(*types.Interface); ok && it.NumMethods() > 0 && !seen[it] {
			seen[it] = true
			ifaces = append(ifaces, it)
		}
	}
	var named []*types.Named
	for _, pk := range lp.P.Pkgs {
		if include != nil && !include(pk) {
			continue
		}
		for _, tv := range pk.TypesInfo.Types {
			addI(tv.Type)
		}
		for _, obj := range pk.TypesInfo.Defs {
			if v, ok := obj.(*types.Var); ok {
				addI(v.Type())
			}
			if tn, ok := obj.(*types.TypeName); ok {
				addI(tn.Type())
				if n, ok := tn.Type().(*types.Named); ok && n.NumMethods() > 0 && n.TypeParams().Len() == 0 {
					if _, isI := n.Underlying().(*types.Interface); !isI {
						named = append(named, n)
					}
				}
			}
		}
		// interfaces of imported packages' signatures reached through function parameters
		for _, obj := range pk.TypesInfo.Uses {
			if fn, ok := obj.(*types.Func); ok {
				if sig, ok := fn.Type().(*types.Signature); ok {
					for i := 0; i < sig.Params().Len(); i++ {
						addI(sig.Params().At(i).Type())
					}
				}
			}
		}
	}
	for _, n := range named {
		ptr := types.NewPointer(n)
		for _, it := range ifaces {
			if !types.Implements(ptr, it) && !types.Implements(n, it) {
				continue
			}
			for i := 0; i < it.NumMethods(); i++ {
				im := it.Method(i)
				for j := 0; j < n.NumMethods(); j++ {
					if m := n.Method(j); m.Name() == im.Name() {
						lp.DynMethod[m.Origin()] = true
					}
				}
			}
		}
	}
}

// ---- instance paths ----

// rootVar returns the variable at the root of a selector chain.
func rootVar(info *types.Info, e ast.Expr) *types.Var {
	for {
		switch x := ast.Unparen(e).(type) {
		case *ast.Ident:
			return VarOf(info, x)
		case *ast.SelectorExpr:
			e = x.X
		case *ast.StarExpr:
			e = x.X
		case *ast.UnaryExpr:
			e = x.X
		default:
			return nil
		}
	}
}

// ownerVars returns the receiver and parameter variables of the unit's enclosing declared function.
func ownerVars(u *LUnit) (recv *types.Var, params []*types.Var) {
	sig := u.Owner.Obj.Type().(*types.Signature)
	recv = sig.Recv()
	for i := 0; i < sig.Params().Len(); i++ {
		params = append(params, sig.Params().At(i))
	}
	return recv, params
}

// relOf renders expression e (a selector chain) relative to the owner's receiver/params; "" if its root is something else.
func relOf(u *LUnit, e ast.Expr) string {
	text := CanonExpr(e)
	if text == "" {
		return ""
	}
	root := rootVar(u.G.Info, e)
	if root == nil {
		return ""
	}
	suffix := ""
	if i := strings.Index(text, "."); i >= 0 {
		suffix = text[i:]
	}
	if strings.Count(suffix, ".") > 4 {
		return ""
	}
	recv, params := ownerVars(u)
	if recv != nil && root == recv {
		return "$recv" + suffix
	}
	for i, p := range params {
		if root == p {
			return "$p" + strconv.Itoa(i) + suffix
		}
	}
	return ""
}

// mutexRecvOf returns the mutex expression of a recognised lock operation.
func mutexRecvOf(o LockOp) ast.Expr {
	if sel, ok := ast.Unparen(o.Call.Fun).(*ast.SelectorExpr); ok {
		return sel.X
	}
	return nil
}

// bindRel translates a callee-relative instance path to an expression of the caller at call site c ("" text if not expressible).
func bindRel(rel string, c *LCall) (text string, expr ast.Expr, suffix string) {
	if rel == "" {
		return "", nil, ""
	}
	head, suf := rel, ""
	if i := strings.Index(rel, "."); i >= 0 {
		head, suf = rel[:i], rel[i:]
	}
	var base ast.Expr
	switch {
	case head == "$recv":
		if sel, ok := ast.Unparen(c.Call.Fun).(*ast.SelectorExpr); ok {
			base = sel.X
		}
	case strings.HasPrefix(head, "$p"):
		i, err := strconv.Atoi(head[2:])
		if err == nil && i < len(c.Call.Args) && !c.Call.Ellipsis.IsValid() {
			base = c.Call.Args[i]
		}
	}
	if base == nil {
		return "", nil, ""
	}
	bt := CanonExpr(base)
	if bt == "" {
		return "", nil, ""
	}
	return bt + suf, base, suf
}

// ---- summaries ----

func acqKey(a Acq) string { return a.Class + "|" + a.Rel }

// computeAcquires runs the fixpoint acq[u] = own ∪ ⋃ bind(acq[callee]) over synchronous and deferred static calls and in-place literals.
func (lp *LockProgram) computeAcquires() {
	lp.acq = map[*LUnit][]Acq{}
	have := map[*LUnit]map[string]bool{}
	add := func(u *LUnit, a Acq) bool {
		if have[u] == nil {
			have[u] = map[string]bool{}
		}
		k := acqKey(a)
		if have[u][k] {
			return false
		}
		have[u][k] = true
		lp.acq[u] = append(lp.acq[u], a)
		return true
	}
	for _, u := range lp.Units {
		for _, o := range u.LI.Ops {
			if o.Op != "Lock" && o.Op != "RLock" {
				continue
			}
			mode := "W"
			if o.Op == "RLock" {
				mode = "R"
			}
			add(u, Acq{Class: o.Class, Mode: mode, Rel: relOf(u, mutexRecvOf(o)), Pos: o.Call.Pos(), Chain: []string{u.Name}})
		}
	}
	for changed := true; changed; {
		changed = false
		for _, u := range lp.Units {
			for _, ch := range u.Children {
				if ch.Kind != ULitCall && ch.Kind != ULitDefer && !(ch.Kind == ULitOnce && !ch.ViaGo) {
					continue
				}
				for _, a := range lp.acq[ch] {
					if len(a.Chain) > 12 {
						continue
					}
					// same owner frame: relative paths carry over unchanged
					if add(u, Acq{Class: a.Class, Mode: a.Mode, Rel: a.Rel, Pos: a.Pos, Chain: append([]string{u.Name}, a.Chain...)}) {
						changed = true
					}
				}
			}
			for _, c := range u.Calls {
				if c.Mode == CallGo {
					continue
				}
				for _, t := range c.Targets {
					for _, a := range lp.acq[t] {
						if len(a.Chain) > 12 {
							continue
						}
						rel := ""
						if c.Dyn == "local-closure" {
							rel = a.Rel // same owner frame
						} else if _, expr, suf := bindRel(a.Rel, c); expr != nil {
							if r := relOf(u, expr); r != "" && strings.Count(r+suf, ".") <= 4 {
								rel = r + suf
							}
						}
						if add(u, Acq{Class: a.Class, Mode: a.Mode, Rel: rel, Pos: a.Pos, Chain: append([]string{u.Name}, a.Chain...)}) {
							changed = true
						}
					}
				}
			}
		}
	}
}

// Acquires returns the transitive acquisitions of u.
func (lp *LockProgram) Acquires(u *LUnit) []Acq {
	if lp.acq == nil {
		lp.computeAcquires()
	}
	return lp.acq[u]
}

// OrderEdge is one "To acquired while From held" witness.
type OrderEdge struct {
	From, To     string
	FromMode     string
	ToMode       string
	SameInstance bool   // From and To provably denote the same mutex instance
	Unit         *LUnit // where From is held
	Pos          token.Pos
	HeldInst     string
	AcqPos       token.Pos // the Lock call that acquires To
	Chain        []string  // call chain from Unit to the acquiring unit (len 1: direct)
}

// OrderEdges enumerates every lock-order witness of the analysed packages.
func (lp *LockProgram) OrderEdges() []OrderEdge {
	var out []OrderEdge
	for _, u := range lp.Units {
		if u.Kind == ULitDead {
			continue
		}
		emit := func(node int, acqText string, a Acq, pos token.Pos) {
			for inst, mode := range u.LI.MayIn[node] {
				cl := u.LI.ClassOf[inst]
				out = append(out, OrderEdge{From: cl, To: a.Class, FromMode: mode, ToMode: a.Mode,
					SameInstance: acqText != "" && acqText == inst, Unit: u, Pos: pos, HeldInst: inst, AcqPos: a.Pos, Chain: a.Chain})
			}
		}
		for _, o := range u.LI.Ops {
			if (o.Op != "Lock" && o.Op != "RLock") || o.Deferred {
				continue
			}
			mode := "W"
			if o.Op == "RLock" {
				mode = "R"
			}
			emit(o.Node, o.Inst, Acq{Class: o.Class, Mode: mode, Pos: o.Call.Pos(), Chain: []string{u.Name}}, o.Call.Pos())
		}
		for _, ch := range u.Children {
			if ch.Kind != ULitCall && !(ch.Kind == ULitOnce && !ch.ViaGo) {
				continue
			}
			for _, a := range lp.Acquires(ch) {
				text := ""
				if a.Rel != "" {
					text = lp.relToText(u, a.Rel)
				}
				emit(ch.ParentNode, text, a, ch.Lit.Pos())
			}
		}
		for _, c := range u.Calls {
			if c.Mode != CallSync {
				continue
			}
			for _, t := range c.Targets {
				for _, a := range lp.Acquires(t) {
					text := ""
					if c.Dyn == "local-closure" {
						if a.Rel != "" {
							text = lp.relToText(u, a.Rel)
						}
					} else {
						text, _, _ = bindRel(a.Rel, c)
					}
					emit(c.Node, text, a, c.Call.Pos())
				}
			}
		}
	}
	return out
}

// relToText renders an owner-relative path with the owner's actual receiver / parameter names.
func (lp *LockProgram) relToText(u *LUnit, rel string) string {
	head, suf := rel, ""
	if i := strings.Index(rel, "."); i >= 0 {
		head, suf = rel[:i], rel[i:]
	}
	recv, params := ownerVars(u)
	switch {
	case head == "$recv" && recv != nil:
		return recv.Name() + suf
	case strings.HasPrefix(head, "$p"):
		if i, err := strconv.Atoi(head[2:]); err == nil && i < len(params) {
			return params[i].Name() + suf
		}
	}
	return ""
}

// ---- blocking operations ----

func chanDesc(info *types.Info, e ast.Expr) string {
	e = ast.Unparen(e)
	if fv := FieldOf(info, e); fv != nil {
		se := e.(*ast.SelectorExpr)
		if sel := info.Selections[se]; sel != nil {
			t := sel.Recv()
			if p, ok := t.(*types.Pointer); ok {
				t = p.Elem()
			}
			return ownerStructName(t, fv) + "." + fv.Name()
		}
		return fv.Name()
	}
	if call, ok := e.(*ast.CallExpr); ok {
		if fn := Callee(info, call); fn != nil {
			return "call:" + FuncName(fn)
		}
		return "call"
	}
	return "local"
}

func isChan(info *types.Info, e ast.Expr) bool {
	tv, ok := info.Types[e]
	if !ok || tv.Type == nil {
		return false
	}
	_, isC := tv.Type.Underlying().(*types.Chan)
	return isC
}

// ownBlockOps lists the blocking operations written directly in unit u, with the node at which they execute.
func (lp *LockProgram) ownBlockOps(u *LUnit) (ops []BlockOp, nodes []int) {
	info := u.G.Info
	var body *ast.BlockStmt
	if u.Lit != nil {
		body = u.Lit.Body
	} else {
		body = u.Decl.Decl.Body
	}
	// comm statements of select statements: non-blocking when the select has a default clause
	nonBlocking := map[ast.Stmt]bool{}
	selectFirst := map[ast.Stmt]*ast.SelectStmt{}
	selectComm := map[ast.Stmt]bool{}
	InspectShallow(body, func(x ast.Node) bool {
		sel, ok := x.(*ast.SelectStmt)
		if !ok {
			return true
		}
		hasDefault := false
		var first ast.Stmt
		for _, cc := range sel.Body.List {
			c := cc.(*ast.CommClause)
			if c.Comm == nil {
				hasDefault = true
			} else if first == nil {
				first = c.Comm
			}
		}
		for _, cc := range sel.Body.List {
			c := cc.(*ast.CommClause)
			if c.Comm == nil {
				continue
			}
			selectComm[c.Comm] = true
			if hasDefault {
				nonBlocking[c.Comm] = true
			}
		}
		if !hasDefault && first != nil {
			selectFirst[first] = sel
		}
		return true
	})
	live := u.G.Live()
	for _, nd := range u.G.Nodes {
		if nd.Ast == nil || !live[nd.ID] {
			continue
		}
		if st, ok := nd.Ast.(ast.Stmt); ok && selectComm[st] {
			if sel := selectFirst[st]; sel != nil {
				var parts []string
				for _, cc := range sel.Body.List {
					if c := cc.(*ast.CommClause); c.Comm != nil {
						parts = append(parts, lp.commDesc(u, c.Comm))
					}
				}
				sort.Strings(parts)
				ops = append(ops, BlockOp{Kind: "select", What: strings.Join(parts, "+"), Pos: sel.Pos(), Chain: []string{u.Name}})
				nodes = append(nodes, nd.ID)
			}
			continue // the comm statements themselves are part of the select
		}
		if _, isGo := nd.Ast.(*ast.GoStmt); isGo {
			continue
		}
		if rs, ok := nd.Ast.(*ast.RangeStmt); ok {
			_ = rs
		}
		InspectShallow(nd.Ast, func(x ast.Node) bool {
			switch s := x.(type) {
			case *ast.UnaryExpr:
				if s.Op == token.ARROW {
					ops = append(ops, BlockOp{Kind: "recv", What: lp.describe(u, s.X), Pos: s.Pos(), Chain: []string{u.Name}})
					nodes = append(nodes, nd.ID)
				}
			case *ast.SendStmt:
				ops = append(ops, BlockOp{Kind: "send", What: lp.describe(u, s.Chan), Pos: s.Pos(), Chain: []string{u.Name}})
				nodes = append(nodes, nd.ID)
			case *ast.CallExpr:
				if fn := Callee(info, s); fn != nil && fn.Pkg() != nil && fn.Pkg().Path() == "sync" && fn.Name() == "Wait" {
					what := "local"
					if sel, ok := ast.Unparen(s.Fun).(*ast.SelectorExpr); ok {
						what = lp.describe(u, sel.X)
					}
					ops = append(ops, BlockOp{Kind: recvNamed(fn) + ".Wait", What: what, Pos: s.Pos(), Chain: []string{u.Name}})
					nodes = append(nodes, nd.ID)
				}
			}
			return true
		})
		// range over a channel: go/cfg places the range operand as a node of the loop header
		if e, ok := nd.Ast.(ast.Expr); ok && nd.Block != nil {
			if rs, ok := nd.Block.Stmt.(*ast.RangeStmt); ok && rs.X == e && isChan(info, e) {
				ops = append(ops, BlockOp{Kind: "range-chan", What: lp.describe(u, e), Pos: e.Pos(), Chain: []string{u.Name}})
				nodes = append(nodes, nd.ID)
			}
		}
	}
	if len(ops) > 0 {
		needs := lp.paramNeeds(u)
		for i := range ops {
			if n := needs[nodes[i]]; len(n) > 0 {
				ops[i].Need = n
			}
		}
	}
	return ops, nodes
}

func (lp *LockProgram) commDesc(u *LUnit, st ast.Stmt) string {
	var d string
	ast.Inspect(st, func(x ast.Node) bool {
		switch s := x.(type) {
		case *ast.UnaryExpr:
			if s.Op == token.ARROW && d == "" {
				d = "recv:" + lp.describe(u, s.X)
			}
		case *ast.SendStmt:
			if d == "" {
				d = "send:" + lp.describe(u, s.Chan)
			}
		}
		return true
	})
	return d
}

func blkKey(b BlockOp) string {
	k := b.Kind + "|" + b.What
	if len(b.Need) > 0 {
		var idx []int
		for i := range b.Need {
			idx = append(idx, i)
		}
		sort.Ints(idx)
		for _, i := range idx {
			k += "|p" + strconv.Itoa(i) + "=" + strconv.FormatBool(b.Need[i])
		}
	}
	return k
}

// boolParams returns the bool parameters of the unit's owner that are never assigned in its body (index -> var).
func (lp *LockProgram) boolParams(owner *FuncInfo) map[int]*types.Var {
	if lp.bparams == nil {
		lp.bparams = map[*FuncInfo]map[int]*types.Var{}
	}
	if m, ok := lp.bparams[owner]; ok {
		return m
	}
	m := map[int]*types.Var{}
	sig := owner.Obj.Type().(*types.Signature)
	for i := 0; i < sig.Params().Len(); i++ {
		p := sig.Params().At(i)
		if b, ok := p.Type().Underlying().(*types.Basic); ok && b.Kind() == types.Bool && !(sig.Variadic() && i == sig.Params().Len()-1) {
			m[i] = p
		}
	}
	if len(m) > 0 {
		info := owner.Pkg.TypesInfo
		kill := func(e ast.Expr) {
			if v := VarOf(info, e); v != nil {
				for i, p := range m {
					if p == v {
						delete(m, i)
					}
				}
			}
		}
		ast.Inspect(owner.Decl.Body, func(n ast.Node) bool {
			switch s := n.(type) {
			case *ast.AssignStmt:
				for _, l := range s.Lhs {
					kill(l)
				}
			case *ast.UnaryExpr:
				if s.Op == token.AND {
					kill(s.X)
				}
			}
			return true
		})
	}
	lp.bparams[owner] = m
	return m
}

// paramNeeds computes, for declared unit u, which nodes execute only for one value of a bool parameter.
func (lp *LockProgram) paramNeeds(u *LUnit) map[int]map[int]bool {
	out := map[int]map[int]bool{} // node -> param index -> required value
	if u.Kind != UDecl {
		return out
	}
	info := u.G.Info
	for idx, p := range lp.boolParams(u.Owner) {
		isP := func(e ast.Expr) bool { return e != nil && VarOf(info, e) == p }
		isNotP := func(e ast.Expr) bool {
			ue, ok := ast.Unparen(e).(*ast.UnaryExpr)
			return ok && ue.Op == token.NOT && VarOf(info, ue.X) == p
		}
		reachIf := func(val bool) map[int]bool {
			return u.G.ReachFromEntry(nil, func(from, i int, e Edge) bool {
				if e.Cond == nil || e.Tag != nil {
					return false
				}
				// the edge is infeasible when its branch contradicts p == val
				switch {
				case isP(e.Cond):
					return (e.Branch == 1) != val
				case isNotP(e.Cond):
					return (e.Branch == 1) == val
				}
				return false
			})
		}
		rt, rf := reachIf(true), reachIf(false)
		for _, nd := range u.G.Nodes {
			switch {
			case rt[nd.ID] && !rf[nd.ID]:
				if out[nd.ID] == nil {
					out[nd.ID] = map[int]bool{}
				}
				out[nd.ID][idx] = true
			case rf[nd.ID] && !rt[nd.ID]:
				if out[nd.ID] == nil {
					out[nd.ID] = map[int]bool{}
				}
				out[nd.ID][idx] = false
			}
		}
	}
	return out
}

// bindNeed translates the parameter conditions of a callee's blocking operation through call c made in unit u:
// feasible reports false when a constant argument contradicts a condition.
func (lp *LockProgram) bindNeed(u *LUnit, c *LCall, b BlockOp) (need map[int]bool, feasible bool) {
	if len(b.Need) == 0 {
		return nil, true
	}
	if c == nil || c.Dyn == "local-closure" {
		return b.Need, true // same owner frame
	}
	info := u.G.Info
	for idx, val := range b.Need {
		if idx >= len(c.Call.Args) || c.Call.Ellipsis.IsValid() {
			continue
		}
		arg := c.Call.Args[idx]
		if tv, ok := info.Types[arg]; ok && tv.Value != nil && tv.Value.Kind() == constant.Bool {
			if constant.BoolVal(tv.Value) != val {
				return nil, false
			}
			continue
		}
		if v := VarOf(info, arg); v != nil {
			for j, p := range lp.boolParams(u.Owner) {
				if p == v {
					if need == nil {
						need = map[int]bool{}
					}
					need[j] = val
				}
			}
		}
	}
	return need, true
}

func (lp *LockProgram) computeBlocks() {
	lp.blk = map[*LUnit][]BlockOp{}
	have := map[*LUnit]map[string]bool{}
	add := func(u *LUnit, b BlockOp) bool {
		if have[u] == nil {
			have[u] = map[string]bool{}
		}
		k := blkKey(b)
		if have[u][k] {
			return false
		}
		have[u][k] = true
		lp.blk[u] = append(lp.blk[u], b)
		return true
	}
	for _, u := range lp.Units {
		ops, _ := lp.ownBlockOps(u)
		for _, b := range ops {
			add(u, b)
		}
	}
	for changed := true; changed; {
		changed = false
		for _, u := range lp.Units {
			prop := func(from *LUnit, c *LCall) {
				for _, b := range lp.blk[from] {
					if len(b.Chain) > 12 {
						continue
					}
					need, feasible := lp.bindNeed(u, c, b)
					if !feasible {
						continue
					}
					if add(u, BlockOp{Kind: b.Kind, What: b.What, Pos: b.Pos, Chain: append([]string{u.Name}, b.Chain...), Need: need}) {
						changed = true
					}
				}
			}
			for _, ch := range u.Children {
				if ch.Kind == ULitCall || ch.Kind == ULitDefer || (ch.Kind == ULitOnce && !ch.ViaGo) {
					prop(ch, nil)
				}
			}
			for _, c := range u.Calls {
				if c.Mode != CallGo {
					for _, t := range c.Targets {
						prop(t, c)
					}
				}
			}
		}
	}
}

// Blocks returns the transitive blocking operations of u.
func (lp *LockProgram) Blocks(u *LUnit) []BlockOp {
	if lp.blk == nil {
		lp.computeBlocks()
	}
	return lp.blk[u]
}

// BlockUnder is one blocking operation that may execute while a lock is held.
type BlockUnder struct {
	Class    string
	Mode     string
	HeldInst string
	Unit     *LUnit
	Pos      token.Pos
	Op       BlockOp
}

// BlocksUnderLock enumerates blocking operations (own, in-place literal, static callee) executed while some lock may be held.
func (lp *LockProgram) BlocksUnderLock() []BlockUnder {
	var out []BlockUnder
	for _, u := range lp.Units {
		if u.Kind == ULitDead {
			continue
		}
		emit := func(node int, b BlockOp, pos token.Pos) {
			for inst, mode := range u.LI.MayIn[node] {
				out = append(out, BlockUnder{Class: u.LI.ClassOf[inst], Mode: mode, HeldInst: inst, Unit: u, Pos: pos, Op: b})
			}
		}
		ops, nodes := lp.ownBlockOps(u)
		for i, b := range ops {
			emit(nodes[i], b, b.Pos)
		}
		for _, ch := range u.Children {
			if ch.Kind == ULitCall || (ch.Kind == ULitOnce && !ch.ViaGo) {
				for _, b := range lp.Blocks(ch) {
					emit(ch.ParentNode, b, ch.Lit.Pos())
				}
			}
		}
		for _, c := range u.Calls {
			if c.Mode == CallSync {
				for _, t := range c.Targets {
					for _, b := range lp.Blocks(t) {
						if _, feasible := lp.bindNeed(u, c, b); feasible {
							emit(c.Node, b, c.Call.Pos())
						}
					}
				}
			}
		}
	}
	return out
}

// ---- dynamic calls under a lock ----

// DynUnder is a dynamic call (function value / interface method) made while a lock may be held.
type DynUnder struct {
	Class string
	Unit  *LUnit
	Pos   token.Pos
	What  string
	Chain []string // units from the lock holder down to the one making the call
}

// DynamicCallsUnderLock lists calls the static call graph cannot resolve that may run with a lock held.
func (lp *LockProgram) DynamicCallsUnderLock() []DynUnder {
	var out []DynUnder
	sums := lp.funcValueCalls()
	for _, u := range lp.Units {
		if u.Kind == ULitDead {
			continue
		}
		emit := func(node int, what string, pos token.Pos, chain []string) {
			for inst := range u.LI.MayIn[node] {
				out = append(out, DynUnder{Class: u.LI.ClassOf[inst], Unit: u, Pos: pos, What: what, Chain: chain})
			}
		}
		for _, c := range u.Calls {
			if c.Mode == CallGo || len(u.LI.MayIn[c.Node]) == 0 {
				continue
			}
			if what := lp.dynWhat(u, c); what != "" {
				emit(c.Node, what, c.Call.Pos(), []string{u.Name})
			}
			// function values invoked by a callee (or a literal run in place) while this unit holds the lock
			if c.Mode == CallSync {
				for _, t := range c.Targets {
					for _, d := range sums[t] {
						emit(c.Node, d.What, c.Call.Pos(), append([]string{u.Name}, d.Chain...))
					}
				}
			}
		}
		for _, ch := range u.Children {
			if ch.Kind == ULitCall || (ch.Kind == ULitOnce && !ch.ViaGo) {
				for _, d := range sums[ch] {
					emit(ch.ParentNode, d.What, ch.Lit.Pos(), append([]string{u.Name}, d.Chain...))
				}
			}
		}
	}
	return out
}

// dynWhat describes call c of unit u when the static call graph cannot follow it ("" otherwise):
// "func-value:<resolved description>" or "interface:<pkg.Type.Method>".
func (lp *LockProgram) dynWhat(u *LUnit, c *LCall) string {
	info := u.G.Info
	if c.Dyn == "local-closure" || (c.Dyn == "iface" && len(c.Targets) > 0) {
		return ""
	}
	if c.Fn == nil {
		if tv, ok := info.Types[c.Call.Fun]; ok && tv.IsType() {
			return "" // conversion
		}
		if id, ok := ast.Unparen(c.Call.Fun).(*ast.Ident); ok {
			if _, isB := info.Uses[id].(*types.Builtin); isB {
				return ""
			}
		}
		if _, isLit := ast.Unparen(c.Call.Fun).(*ast.FuncLit); isLit {
			return ""
		}
		return "func-value:" + lp.describe(u, c.Call.Fun)
	}
	sig, _ := c.Fn.Type().(*types.Signature)
	if sig == nil || sig.Recv() == nil {
		return ""
	}
	if _, isI := sig.Recv().Type().Underlying().(*types.Interface); !isI {
		return ""
	}
	return "interface:" + recvTypeString(sig.Recv().Type()) + "." + c.Fn.Name()
}

type dynOp struct {
	What  string
	Chain []string
}

// funcValueCalls summarises, per unit, the function values it may invoke synchronously (own calls, literals run in
// place, static and module-interface callees, transitively). Interface calls into dependencies are not propagated.
func (lp *LockProgram) funcValueCalls() map[*LUnit][]dynOp {
	if lp.dyns != nil {
		return lp.dyns
	}
	lp.dyns = map[*LUnit][]dynOp{}
	have := map[*LUnit]map[string]bool{}
	add := func(u *LUnit, d dynOp) bool {
		if have[u] == nil {
			have[u] = map[string]bool{}
		}
		if have[u][d.What] {
			return false
		}
		have[u][d.What] = true
		lp.dyns[u] = append(lp.dyns[u], d)
		return true
	}
	for _, u := range lp.Units {
		if u.Kind == ULitDead {
			continue
		}
		for _, c := range u.Calls {
			if c.Mode == CallGo {
				continue
			}
			if what := lp.dynWhat(u, c); strings.HasPrefix(what, "func-value:") {
				add(u, dynOp{What: what, Chain: []string{u.Name}})
			}
		}
	}
	for changed := true; changed; {
		changed = false
		for _, u := range lp.Units {
			prop := func(from *LUnit) {
				for _, d := range lp.dyns[from] {
					if len(d.Chain) > 12 {
						continue
					}
					if add(u, dynOp{What: d.What, Chain: append([]string{u.Name}, d.Chain...)}) {
						changed = true
					}
				}
			}
			for _, ch := range u.Children {
				if ch.Kind == ULitCall || ch.Kind == ULitDefer || (ch.Kind == ULitOnce && !ch.ViaGo) {
					prop(ch)
				}
			}
			for _, c := range u.Calls {
				if c.Mode != CallGo {
					for _, t := range c.Targets {
						prop(t)
					}
				}
			}
		}
	}
	return lp.dyns
}

func recvTypeString(t types.Type) string {
	if n, ok := t.(*types.Named); ok {
		if n.Obj().Pkg() != nil {
			return n.Obj().Pkg().Name() + "." + n.Obj().Name()
		}
		return n.Obj().Name()
	}
	return t.String()
}

// ---- must-held entry locksets ----

// IsExternalRoot reports whether a declared unit can be called from outside the module with no lock held.
func (lp *LockProgram) IsExternalRoot(u *LUnit) bool {
	if u.Kind != UDecl {
		return false
	}
	fn := u.Decl.Obj
	if !fn.Exported() || lp.CallerHolds[fn] {
		return false
	}
	sig := fn.Type().(*types.Signature)
	if sig.Recv() == nil {
		return true
	}
	t := sig.Recv().Type()
	if p, ok := t.(*types.Pointer); ok {
		t = p.Elem()
	}
	if n, ok := t.(*types.Named); ok {
		return n.Obj().Exported()
	}
	return true
}

// deferHeld returns the instances certainly still held when the call deferred at node d runs:
// held at d, never released by a plain unlock in the unit, and every deferred unlock of the
// instance is registered before d (so, LIFO, it runs after the deferred call).
func deferHeld(u *LUnit, d int) Held {
	out := Held{}
	fromD := u.G.Reach([]int{d}, nil, nil)
	for inst, mode := range u.LI.In[d] {
		ok := true
		for _, o := range u.LI.Ops {
			if o.Inst != inst || (o.Op != "Unlock" && o.Op != "RUnlock") {
				continue
			}
			if !o.Deferred || (fromD[o.Node] && o.Node != d) {
				ok = false
			}
		}
		if ok {
			out[inst] = mode
		}
	}
	return out
}

func meet(a, b map[string]string) map[string]string {
	out := map[string]string{}
	for k, v := range a {
		if w, ok := b[k]; ok {
			if v == "R" || w == "R" {
				out[k] = "R"
			} else {
				out[k] = "W"
			}
		}
	}
	return out
}

func sameSet(a, b map[string]string) bool {
	if len(a) != len(b) {
		return false
	}
	for k, v := range a {
		if b[k] != v {
			return false
		}
	}
	return true
}

// HeldAt returns the lock classes certainly held at node n of unit u: the unit's entry lockset plus the local must-set.
func (lp *LockProgram) HeldAt(u *LUnit, n int) map[string]string {
	out := map[string]string{}
	for k, v := range lp.EntryMust(u) {
		out[k] = v
	}
	for k, v := range u.LI.HeldClasses(u.LI.In[n]) {
		if out[k] != "W" {
			out[k] = v
		}
	}
	return out
}

// EntryMust returns the lock classes certainly held whenever unit u starts
// executing: ∅ for functions callable from outside the module, for goroutine
// bodies, for function values and for methods reachable through an interface;
// otherwise the intersection over all static call sites.
func (lp *LockProgram) EntryMust(u *LUnit) map[string]string {
	if lp.entryMust == nil {
		lp.computeEntryMust()
	}
	return lp.entryMust[u]
}

func (lp *LockProgram) computeEntryMust() {
	type site struct {
		u    *LUnit
		node int
		mode CallMode
		call *LCall
	}
	sites := map[*LUnit][]site{}
	for _, u := range lp.Units {
		if u.Kind == ULitDead {
			continue
		}
		for _, c := range u.Calls {
			if c.Callee != nil {
				sites[c.Callee] = append(sites[c.Callee], site{u, c.Node, c.Mode, c})
			}
		}
	}
	top := map[*LUnit]bool{} // not yet constrained (= all locks)
	em := map[*LUnit]map[string]string{}
	fixed := map[*LUnit]bool{}
	for _, u := range lp.Units {
		em[u] = map[string]string{}
		switch u.Kind {
		case UDecl:
			if lp.IsExternalRoot(u) || lp.AddrTaken[u.Decl.Obj] || lp.DynMethod[u.Decl.Obj] || len(sites[u]) == 0 ||
				u.Decl.Obj.Name() == "init" || u.Decl.Obj.Name() == "main" {
				fixed[u] = true
			} else {
				top[u] = true
			}
		case ULitCall, ULitDefer:
			top[u] = true
		case ULitOnce:
			if u.ViaGo {
				fixed[u] = true
			} else {
				top[u] = true
			}
		case ULitValue:
			if lp.privateClosure(u) {
				top[u] = true
				for _, cu := range lp.Units {
					if cu.Owner != u.Owner {
						continue
					}
					for _, c := range cu.Calls {
						if c.Dyn == "local-closure" && len(c.Targets) == 1 && c.Targets[0] == u {
							sites[u] = append(sites[u], site{cu, c.Node, c.Mode, nil})
						}
					}
				}
			} else {
				fixed[u] = true
			}
		default:
			fixed[u] = true
		}
	}
	lp.entryMust = em
	contribution := func(s site) (map[string]string, bool) {
		if top[s.u] {
			return nil, false // caller still unconstrained
		}
		switch s.mode {
		case CallGo:
			return map[string]string{}, true
		case CallDefer:
			out := map[string]string{}
			for k, v := range em[s.u] {
				out[k] = v
			}
			for k, v := range s.u.LI.HeldClasses(deferHeld(s.u, s.node)) {
				if out[k] != "W" {
					out[k] = v
				}
			}
			return out, true
		}
		out := lp.HeldAt(s.u, s.node)
		for k, v := range lp.freshBonus(s.u, s.call) {
			out[k] = v
		}
		return out, true
	}
	for changed := true; changed; {
		changed = false
		for _, u := range lp.Units {
			if fixed[u] || u.Kind == ULitDead {
				continue
			}
			var ss []site
			if u.Kind == UDecl || u.Kind == ULitValue {
				ss = sites[u]
			} else {
				mode := CallSync
				if u.Kind == ULitDefer {
					mode = CallDefer
				}
				ss = []site{{u.Parent, u.ParentNode, mode, nil}}
			}
			var acc map[string]string
			any := false
			for _, s := range ss {
				c, ok := contribution(s)
				if !ok {
					continue
				}
				if !any {
					acc, any = c, true
				} else {
					acc = meet(acc, c)
				}
			}
			if !any {
				continue
			}
			if top[u] || !sameSet(acc, em[u]) {
				delete(top, u)
				em[u] = acc
				changed = true
			}
		}
	}
	// units only called from unconstrained cycles (dead code): no assumption
	for u := range top {
		em[u] = map[string]string{}
	}
}

// ForeignUnlocks lists unlock operations on an instance that is not certainly held locally at that point
// (a callee releasing its caller's lock, or an unlock on one arm only): entry locksets would be unsound for such units.
func (lp *LockProgram) ForeignUnlocks() []string {
	var out []string
	for _, u := range lp.Units {
		if u.Kind == ULitDead {
			continue
		}
		for _, o := range u.LI.Ops {
			if o.Op != "Unlock" && o.Op != "RUnlock" {
				continue
			}
			if o.Deferred {
				continue
			}
			if _, may := u.LI.MayIn[o.Node][o.Inst]; !may {
				out = append(out, u.Name+": "+o.Op+" of "+o.Class+" which this function did not acquire")
			}
		}
	}
	sort.Strings(out)
	return out
}

// ReturnsHolding lists units that may return with a lock they acquired still held (no deferred unlock).
func (lp *LockProgram) ReturnsHolding() []string {
	var out []string
	for _, u := range lp.Units {
		if u.Kind == ULitDead {
			continue
		}
		deferred := map[string]bool{}
		for _, o := range u.LI.Ops {
			if o.Deferred && (o.Op == "Unlock" || o.Op == "RUnlock") {
				deferred[o.Inst] = true
			}
		}
		// deferred literal children that unlock
		for _, ch := range u.Children {
			if ch.Kind == ULitDefer {
				for _, o := range ch.LI.Ops {
					if o.Op == "Unlock" || o.Op == "RUnlock" {
						deferred[o.Inst] = true
					}
				}
			}
		}
		for inst := range u.LI.MayIn[u.G.Exit] {
			if !deferred[inst] {
				out = append(out, u.Name+": may return holding "+u.LI.ClassOf[inst])
			}
		}
	}
	sort.Strings(out)
	return out
}

// ---- objects under construction ----

// allocLocals returns the local variables of owner that are defined exactly once, by an allocation
// (&T{...}, T{...}, new(T)).
func allocLocals(owner *FuncInfo) map[*types.Var]bool {
	info := owner.Pkg.TypesInfo
	defs := map[*types.Var]int{}
	alloc := map[*types.Var]bool{}
	isAlloc := func(e ast.Expr) bool {
		e = ast.Unparen(e)
		if u, ok := e.(*ast.UnaryExpr); ok && u.Op == token.AND {
			e = ast.Unparen(u.X)
		}
		switch x := e.(type) {
		case *ast.CompositeLit:
			return true
		case *ast.CallExpr:
			if id, ok := x.Fun.(*ast.Ident); ok {
				if b, ok := info.Uses[id].(*types.Builtin); ok && b.Name() == "new" {
					return true
				}
			}
		}
		return false
	}
	ast.Inspect(owner.Decl.Body, func(n ast.Node) bool {
		switch s := n.(type) {
		case *ast.AssignStmt:
			for i, l := range s.Lhs {
				v := VarOf(info, l)
				if v == nil {
					continue
				}
				defs[v]++
				if len(s.Rhs) == len(s.Lhs) && isAlloc(s.Rhs[i]) {
					alloc[v] = true
				}
			}
		case *ast.ValueSpec:
			for i, nm := range s.Names {
				v, _ := info.Defs[nm].(*types.Var)
				if v == nil {
					continue
				}
				defs[v]++
				if len(s.Values) == len(s.Names) && isAlloc(s.Values[i]) {
					alloc[v] = true
				}
			}
		case *ast.UnaryExpr:
			if s.Op == token.AND {
				if v := VarOf(info, s.X); v != nil {
					defs[v] += 2 // address taken: may be overwritten through the pointer
				}
			}
		}
		return true
	})
	out := map[*types.Var]bool{}
	for v := range alloc {
		if defs[v] == 1 {
			out[v] = true
		}
	}
	return out
}

// FreshVars returns the variables of owner that denote an object still under construction: locals the
// function allocated itself, plus the receiver when the function is an init-only helper (every call site
// passes an object under construction as the receiver).
func (lp *LockProgram) FreshVars(owner *FuncInfo) map[*types.Var]bool {
	if lp.fresh == nil {
		lp.computeFresh()
	}
	return lp.fresh[owner]
}

// InitOnly reports whether declared unit u is only ever called on an object under construction.
func (lp *LockProgram) InitOnly(u *LUnit) bool {
	if lp.fresh == nil {
		lp.computeFresh()
	}
	return lp.initOnly[u]
}

func (lp *LockProgram) computeFresh() {
	lp.fresh = map[*FuncInfo]map[*types.Var]bool{}
	lp.initOnly = map[*LUnit]bool{}
	type site struct {
		u *LUnit
		c *LCall
	}
	sites := map[*LUnit][]site{}
	for _, u := range lp.Units {
		if u.Kind == ULitDead {
			continue
		}
		if u.Kind == UDecl {
			lp.fresh[u.Owner] = allocLocals(u.Owner)
		}
		for _, c := range u.Calls {
			if c.Callee != nil {
				sites[c.Callee] = append(sites[c.Callee], site{u, c})
			}
		}
	}
	for changed := true; changed; {
		changed = false
		for _, u := range lp.Units {
			if u.Kind != UDecl || lp.initOnly[u] || len(sites[u]) == 0 || lp.IsExternalRoot(u) || lp.AddrTaken[u.Decl.Obj] || lp.DynMethod[u.Decl.Obj] {
				continue
			}
			recv := u.Decl.Obj.Type().(*types.Signature).Recv()
			if recv == nil {
				continue
			}
			all := true
			for _, s := range sites[u] {
				if s.c.Mode != CallSync || !lp.freshRecv(s.u, s.c) {
					all = false
					break
				}
			}
			if all {
				lp.initOnly[u] = true
				lp.fresh[u.Owner][recv] = true
				changed = true
			}
		}
	}
}

// freshRecv reports whether the receiver expression of call c in unit u is a bare variable denoting an object under construction.
func (lp *LockProgram) freshRecv(u *LUnit, c *LCall) bool {
	if u.Kind != UDecl && u.Kind != ULitCall {
		return false // a callback defined in a constructor runs after publication
	}
	sel, ok := ast.Unparen(c.Call.Fun).(*ast.SelectorExpr)
	if !ok {
		return false
	}
	id, ok := ast.Unparen(sel.X).(*ast.Ident)
	if !ok {
		return false
	}
	v := VarOf(u.G.Info, id)
	return v != nil && lp.fresh[u.Owner][v]
}

// freshBonus returns the lock classes of the struct type of a receiver under construction: nobody else can
// hold or need them yet, so for the callee's entry lockset they count as held.
func (lp *LockProgram) freshBonus(u *LUnit, c *LCall) map[string]string {
	if c == nil {
		return nil
	}
	if lp.fresh == nil {
		lp.computeFresh()
	}
	if !lp.freshRecv(u, c) {
		return nil
	}
	sel := ast.Unparen(c.Call.Fun).(*ast.SelectorExpr)
	tv, ok := u.G.Info.Types[sel.X]
	if !ok {
		return nil
	}
	t := tv.Type
	if p, ok := t.Underlying().(*types.Pointer); ok {
		t = p.Elem()
	}
	n, _ := t.(*types.Named)
	if n == nil {
		return nil
	}
	st, _ := n.Underlying().(*types.Struct)
	if st == nil {
		return nil
	}
	out := map[string]string{}
	for i := 0; i < st.NumFields(); i++ {
		f := st.Field(i)
		if fn, ok := f.Type().(*types.Named); ok && fn.Obj().Pkg() != nil && fn.Obj().Pkg().Path() == "sync" &&
			(fn.Obj().Name() == "Mutex" || fn.Obj().Name() == "RWMutex") {
			out[n.Obj().Name()+"."+f.Name()] = "W"
		}
	}
	return out
}

// ---- which code may run concurrently with a set of serialised entry points ----

// ConcurrentReach returns the units that may execute on some goroutine other than the one running the
// serialised entry points: everything reachable (calls of any mode, literals) from an external root that is
// not a serialised entry, from a goroutine body, from a function value or from a dynamically callable method.
// A unit outside the result runs only inside the serialised entry points' own call trees.
func (lp *LockProgram) ConcurrentReach(serial, skip func(*LUnit) bool) map[*LUnit]bool {
	reach := map[*LUnit]bool{}
	var work []*LUnit
	push := func(u *LUnit) {
		if u != nil && !reach[u] && u.Kind != ULitDead && !(skip != nil && skip(u)) {
			reach[u] = true
			work = append(work, u)
		}
	}
	for _, u := range lp.Units {
		if skip != nil && skip(u) {
			continue // not part of the analysed program: neither a root nor traversed
		}
		switch u.Kind {
		case UDecl:
			if serial(u) {
				break // not a root by itself (it still counts when concurrent code calls it)
			}
			if lp.IsExternalRoot(u) || lp.AddrTaken[u.Decl.Obj] || lp.DynMethod[u.Decl.Obj] {
				push(u)
			}
		case ULitGo, ULitValue:
			push(u)
		case ULitOnce:
			if u.ViaGo {
				push(u)
			}
		}
		for _, c := range u.Calls {
			if c.Mode == CallGo {
				for _, t := range c.Targets {
					push(t)
				}
			}
		}
	}
	for len(work) > 0 {
		u := work[len(work)-1]
		work = work[:len(work)-1]
		for _, ch := range u.Children {
			push(ch)
		}
		for _, c := range u.Calls {
			for _, t := range c.Targets {
				push(t)
			}
		}
	}
	return reach
}

// privateClosure reports whether literal unit u is bound to a local variable that is only ever called
// (v := func(){...}; v(); defer v()): it never escapes, so its entry lockset is the intersection over those calls.
func (lp *LockProgram) privateClosure(u *LUnit) bool {
	v := lp.closureVar[u]
	if v == nil {
		return false
	}
	info := u.Owner.Pkg.TypesInfo
	callFun := map[*ast.Ident]bool{}
	ast.Inspect(u.Owner.Decl.Body, func(n ast.Node) bool {
		if call, ok := n.(*ast.CallExpr); ok {
			if id, ok := ast.Unparen(call.Fun).(*ast.Ident); ok {
				callFun[id] = true
			}
		}
		return true
	})
	ok := true
	ast.Inspect(u.Owner.Decl.Body, func(n ast.Node) bool {
		if id, isID := n.(*ast.Ident); isID && info.Uses[id] == types.Object(v) && !callFun[id] {
			ok = false
		}
		return true
	})
	return ok
}

// ---- call-graph domination (reviewed exceptions survive moving code into a helper) ----

// ReachAvoiding returns the units that can run without one of the anchor functions being on the call stack or
// lexically enclosing them: everything reachable (calls of any mode, nested literals) from functions callable
// from outside the module, function values, dynamically callable methods and functions nobody calls, never
// entering a unit for which anchor is true. A unit outside the result only ever runs inside (or is defined
// inside) an anchor.
func (lp *LockProgram) ReachAvoiding(anchor func(*LUnit) bool) map[*LUnit]bool {
	called := map[*LUnit]bool{}
	for _, u := range lp.Units {
		for _, c := range u.Calls {
			for _, t := range c.Targets {
				called[t] = true
			}
		}
	}
	reach := map[*LUnit]bool{}
	var work []*LUnit
	push := func(u *LUnit) {
		if u == nil || reach[u] || u.Kind == ULitDead || anchor(u) {
			return
		}
		reach[u] = true
		work = append(work, u)
	}
	for _, u := range lp.Units {
		if u.Kind != UDecl {
			continue
		}
		if lp.IsExternalRoot(u) || lp.AddrTaken[u.Decl.Obj] || lp.DynMethod[u.Decl.Obj] || !called[u] {
			push(u)
		}
	}
	for len(work) > 0 {
		u := work[len(work)-1]
		work = work[:len(work)-1]
		for _, ch := range u.Children {
			push(ch)
		}
		for _, c := range u.Calls {
			for _, t := range c.Targets {
				push(t)
			}
		}
	}
	return reach
}
