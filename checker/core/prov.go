package core

import (
	"go/ast"
	"go/token"
	"go/types"
	"sort"
	"strings"
)

// Prov is a flow-insensitive, whole-function (nested function literals
// included) def-use closure on the type-checked AST: the provenance engine
// (E6) used for "derived only from" rules. For an expression it computes the
// set of *leaves* its value may be built from: parameters, calls (not
// expanded unless the rule provides a summary), field reads through
// pointers, package-level variables, non-empty literals. Local variables are
// resolved through *all* their definitions anywhere in the function
// (assignments, := , var, range clauses, element and field stores, closure
// parameters bound at every call site of the closure), so the result
// over-approximates every execution order: sound for "only from".
//
// Element/collection structure is deliberately ignored: a slice, its
// elements, and a struct and its fields share one provenance. A field store
// `x.f = e` on a local struct value adds e's leaves to x.
type Prov struct {
	P    *Program
	Fi   *FuncInfo
	Info *types.Info
	// Summary lets a rule say that result idx of a call derives only from some
	// of its operands: return the operand expressions (ok=true) to continue
	// through them instead of producing a call leaf.
	Summary func(call *ast.CallExpr, fn *types.Func, idx int) (from []ast.Expr, ok bool)
	// Inline: same-module callees whose returns are followed with parameters bound to the call's arguments.
	Inline   func(fn *types.Func) bool
	MaxDepth int

	defs     map[*types.Var][]provDef
	escaped  map[*types.Var]token.Pos
	litOf    map[*types.Var]*ast.FuncLit // closure variables with exactly one definition, a literal
	litDefs  map[*types.Var]int
	params   map[*types.Var]int // parameters of the analysed function (receiver = -1)
	retLit   map[*ast.FuncLit][]*ast.ReturnStmt
	retDecl  []*ast.ReturnStmt
	children map[*types.Func]*Prov
	results  map[*types.Var]bool // named results (of the function and of its literals): zero-initialised
}

type provDef struct {
	rhs  ast.Expr // nil: zero value
	idx  int      // result index when rhs is a multi-value expression, else -1
	elem bool     // range clause: element/key of rhs
}

// Leaf is one provenance source.
type Leaf struct {
	Kind string   // param | recv | call | field | global | lit | unknown | free
	Name string   // callee name / Type.field / parameter name / reason
	Idx  int      // result index (calls), parameter index (param)
	Node ast.Node // the call / selector / literal / identifier
	Fn   *types.Func
	Var  *types.Var // field or parameter object
}

// Key renders the leaf without positions.
func (l Leaf) Key() string {
	switch l.Kind {
	case "call":
		return "call:" + l.Name + "#" + itoa(l.Idx)
	case "param":
		return "param:" + itoa(l.Idx)
	}
	return l.Kind + ":" + l.Name
}

// NewProv indexes the definitions of fi (nested literals included).
func NewProv(p *Program, fi *FuncInfo) *Prov {
	pv := &Prov{P: p, Fi: fi, Info: fi.Pkg.TypesInfo, MaxDepth: 3,
		defs: map[*types.Var][]provDef{}, escaped: map[*types.Var]token.Pos{}, litOf: map[*types.Var]*ast.FuncLit{}, litDefs: map[*types.Var]int{},
		params: map[*types.Var]int{}, retLit: map[*ast.FuncLit][]*ast.ReturnStmt{}, children: map[*types.Func]*Prov{}, results: map[*types.Var]bool{}}
	for i := 0; i < fi.Obj.Type().(*types.Signature).Results().Len(); i++ {
		pv.results[fi.Obj.Type().(*types.Signature).Results().At(i)] = true
	}
	sig := fi.Obj.Type().(*types.Signature)
	if sig.Recv() != nil {
		pv.params[sig.Recv()] = -1
	}
	for i := 0; i < sig.Params().Len(); i++ {
		pv.params[sig.Params().At(i)] = i
	}
	pv.scan()
	return pv
}

func (pv *Prov) addDef(v *types.Var, d provDef) {
	if v == nil {
		return
	}
	pv.defs[v] = append(pv.defs[v], d)
	pv.litDefs[v]++
	if fl, ok := d.rhs.(*ast.FuncLit); ok && d.idx < 0 && !d.elem {
		pv.litOf[v] = fl
	}
}

// rootVar returns the local variable at the root of an lvalue (x, x.f, x[i], x.f[i].g, *x) and whether the path is more than the bare identifier.
func (pv *Prov) rootVar(e ast.Expr) (*types.Var, bool) {
	deep := false
	for {
		e = ast.Unparen(e)
		switch x := e.(type) {
		case *ast.Ident:
			return VarOf(pv.Info, x), deep
		case *ast.SelectorExpr:
			if sel := pv.Info.Selections[x]; sel == nil || sel.Kind() != types.FieldVal {
				return nil, deep
			}
			e, deep = x.X, true
		case *ast.IndexExpr:
			e, deep = x.X, true
		case *ast.StarExpr:
			e, deep = x.X, true
		case *ast.SliceExpr:
			e, deep = x.X, true
		default:
			return nil, deep
		}
	}
}

func (pv *Prov) scan() {
	info := pv.Info
	var curLit []*ast.FuncLit
	var visit func(n ast.Node) bool
	visit = func(n ast.Node) bool {
		switch s := n.(type) {
		case *ast.FuncLit:
			if lsig, ok := info.TypeOf(s).(*types.Signature); ok {
				for i := 0; i < lsig.Results().Len(); i++ {
					pv.results[lsig.Results().At(i)] = true
				}
			}
			curLit = append(curLit, s)
			ast.Inspect(s.Body, visit)
			curLit = curLit[:len(curLit)-1]
			return false
		case *ast.ReturnStmt:
			if len(curLit) > 0 {
				fl := curLit[len(curLit)-1]
				pv.retLit[fl] = append(pv.retLit[fl], s)
			} else {
				pv.retDecl = append(pv.retDecl, s)
			}
		case *ast.AssignStmt:
			for i, l := range s.Lhs {
				v, deep := pv.rootVar(l)
				if v == nil {
					continue
				}
				_ = deep
				switch {
				case len(s.Rhs) == len(s.Lhs):
					pv.addDef(v, provDef{rhs: s.Rhs[i], idx: -1})
				case len(s.Rhs) == 1:
					pv.addDef(v, provDef{rhs: s.Rhs[0], idx: i})
				}
			}
		case *ast.ValueSpec:
			for i, nm := range s.Names {
				v, _ := info.Defs[nm].(*types.Var)
				if v == nil {
					continue
				}
				switch {
				case len(s.Values) == 0:
					pv.addDef(v, provDef{rhs: nil, idx: -1})
				case len(s.Values) == len(s.Names):
					pv.addDef(v, provDef{rhs: s.Values[i], idx: -1})
				default:
					pv.addDef(v, provDef{rhs: s.Values[0], idx: i})
				}
			}
		case *ast.RangeStmt:
			for _, e := range []ast.Expr{s.Key, s.Value} {
				if e == nil {
					continue
				}
				if v, _ := pv.rootVar(e); v != nil {
					pv.addDef(v, provDef{rhs: s.X, idx: -1, elem: true})
				}
			}
		case *ast.UnaryExpr:
			if s.Op == token.AND {
				if v, _ := pv.rootVar(s.X); v != nil {
					if _, isLit := ast.Unparen(s.X).(*ast.CompositeLit); !isLit {
						pv.escaped[v] = s.Pos()
					}
				}
			}
		case *ast.TypeSwitchStmt:
			// the bound variable of a type switch derives from the switched expression
			if as, ok := s.Assign.(*ast.AssignStmt); ok && len(as.Lhs) == 1 && len(as.Rhs) == 1 {
				if ta, ok := ast.Unparen(as.Rhs[0]).(*ast.TypeAssertExpr); ok {
					for _, cl := range s.Body.List {
						if obj, ok := info.Implicits[cl].(*types.Var); ok {
							pv.addDef(obj, provDef{rhs: ta.X, idx: -1})
						}
					}
				}
			}
		}
		return true
	}
	ast.Inspect(pv.Fi.Decl.Body, visit)
	// closure parameters: bound at every call through the closure variable
	ast.Inspect(pv.Fi.Decl.Body, func(n ast.Node) bool {
		call, ok := n.(*ast.CallExpr)
		if !ok {
			return true
		}
		var fl *ast.FuncLit
		if l, ok := ast.Unparen(call.Fun).(*ast.FuncLit); ok {
			fl = l
		} else if v := VarOf(info, call.Fun); v != nil && pv.litOf[v] != nil && pv.litDefs[v] == 1 {
			fl = pv.litOf[v]
		}
		if fl == nil {
			return true
		}
		sig, _ := info.TypeOf(fl).(*types.Signature)
		if sig == nil {
			return true
		}
		for i := 0; i < sig.Params().Len(); i++ {
			p := sig.Params().At(i)
			switch {
			case sig.Variadic() && i == sig.Params().Len()-1:
				for _, a := range call.Args[min(i, len(call.Args)):] {
					pv.addDef(p, provDef{rhs: a, idx: -1})
				}
			case i < len(call.Args):
				pv.addDef(p, provDef{rhs: call.Args[i], idx: -1})
			}
		}
		return true
	})
}

// Leaves returns the provenance leaves of e, keyed by Leaf.Key().
func (pv *Prov) Leaves(e ast.Expr) map[string]Leaf {
	out := map[string]Leaf{}
	pv.collect(e, -1, out, map[*types.Var]bool{}, nil, 0)
	return out
}

// LeavesOfVar returns the provenance leaves of a local variable.
func (pv *Prov) LeavesOfVar(v *types.Var) map[string]Leaf {
	out := map[string]Leaf{}
	pv.collectVar(v, nil, out, map[*types.Var]bool{}, nil, 0)
	return out
}

// LeafKeys renders a leaf set as a sorted, comma-separated list.
func LeafKeys(m map[string]Leaf) string {
	var ks []string
	for k := range m {
		ks = append(ks, k)
	}
	sort.Strings(ks)
	return strings.Join(ks, ", ")
}

// bind maps a callee's parameters to caller-side argument expressions (with the caller's Prov) when inlining.
type provBind struct {
	caller *Prov
	args   map[*types.Var][]ast.Expr
	seen   map[*types.Var]bool
	up     *provBind
}

func (pv *Prov) leaf(out map[string]Leaf, l Leaf) { out[l.Key()] = l }

func (pv *Prov) collectVar(v *types.Var, at ast.Node, out map[string]Leaf, seen map[*types.Var]bool, bind *provBind, depth int) {
	if v == nil {
		return
	}
	if seen[v] {
		return
	}
	seen[v] = true
	if v.Pkg() != nil && v.Parent() == v.Pkg().Scope() {
		pv.leaf(out, Leaf{Kind: "global", Name: v.Pkg().Name() + "." + v.Name(), Node: at, Var: v})
		return
	}
	if v.IsField() {
		pv.leaf(out, Leaf{Kind: "field", Name: v.Name(), Node: at, Var: v})
		return
	}
	if pos, esc := pv.escaped[v]; esc {
		_ = pos
		pv.leaf(out, Leaf{Kind: "unknown", Name: "address of " + v.Name() + " taken", Node: at, Var: v})
	}
	if idx, isParam := pv.params[v]; isParam {
		if bind != nil {
			for _, a := range bind.args[v] {
				bind.caller.collect(a, -1, out, bind.seen, bind.up, depth-1)
			}
		} else if idx < 0 {
			pv.leaf(out, Leaf{Kind: "recv", Name: v.Name(), Idx: -1, Node: at, Var: v})
		} else {
			pv.leaf(out, Leaf{Kind: "param", Name: v.Name(), Idx: idx, Node: at, Var: v})
		}
		// parameters may also be reassigned: fall through to the definitions
	}
	ds, ok := pv.defs[v]
	if !ok {
		if _, isParam := pv.params[v]; !isParam && !pv.results[v] {
			// named results and variables declared outside the function (free variables of nothing here)
			pv.leaf(out, Leaf{Kind: "free", Name: v.Name(), Node: at, Var: v})
		}
		return
	}
	for _, d := range ds {
		if d.rhs == nil {
			continue // zero value
		}
		pv.collect(d.rhs, d.idx, out, seen, bind, depth)
	}
}

func (pv *Prov) collect(e ast.Expr, idx int, out map[string]Leaf, seen map[*types.Var]bool, bind *provBind, depth int) {
	info := pv.Info
	e = ast.Unparen(e)
	if e == nil {
		return
	}
	if tv, ok := info.Types[e]; ok && (tv.Value != nil || tv.IsNil()) {
		return // constants and nil carry no provenance
	}
	switch x := e.(type) {
	case *ast.Ident:
		switch obj := info.Uses[x].(type) {
		case *types.Var:
			pv.collectVar(obj, x, out, seen, bind, depth)
		case *types.Func:
			pv.leaf(out, Leaf{Kind: "unknown", Name: "function value " + obj.Name(), Node: x})
		}
		if obj, ok := info.Defs[x].(*types.Var); ok {
			pv.collectVar(obj, x, out, seen, bind, depth)
		}
	case *ast.BasicLit:
	case *ast.FuncLit:
		pv.leaf(out, Leaf{Kind: "unknown", Name: "function literal", Node: x})
	case *ast.CompositeLit:
		if _, isStruct := info.TypeOf(x).Underlying().(*types.Struct); isStruct && len(x.Elts) > 0 {
			// a non-empty struct literal is a value made up here (its constant fields carry no other provenance)
			pv.leaf(out, Leaf{Kind: "lit", Name: types.TypeString(info.TypeOf(x), func(p *types.Package) string { return p.Name() }), Node: x})
		}
		for _, el := range x.Elts {
			if kv, ok := el.(*ast.KeyValueExpr); ok {
				if _, isStruct := info.TypeOf(x).Underlying().(*types.Struct); !isStruct {
					pv.collect(kv.Key, -1, out, seen, bind, depth)
				}
				pv.collect(kv.Value, -1, out, seen, bind, depth)
			} else {
				pv.collect(el, -1, out, seen, bind, depth)
			}
		}
	case *ast.SelectorExpr:
		sel := info.Selections[x]
		if sel == nil {
			// qualified identifier
			switch obj := info.Uses[x.Sel].(type) {
			case *types.Var:
				pv.leaf(out, Leaf{Kind: "global", Name: obj.Pkg().Name() + "." + obj.Name(), Node: x, Var: obj})
			case *types.Func:
				pv.leaf(out, Leaf{Kind: "unknown", Name: "function value " + obj.Name(), Node: x})
			}
			return
		}
		if sel.Kind() != types.FieldVal {
			pv.leaf(out, Leaf{Kind: "unknown", Name: "method value " + x.Sel.Name, Node: x})
			return
		}
		// field of a local struct *value*: shares the variable's provenance; through a pointer or a non-local base: a field read
		base := ast.Unparen(x.X)
		if pv.isLocalValue(base) {
			pv.collect(base, -1, out, seen, bind, depth)
			return
		}
		fv, _ := sel.Obj().(*types.Var)
		pv.leaf(out, Leaf{Kind: "field", Name: ownerName(sel.Recv()) + "." + x.Sel.Name, Node: x, Var: fv})
	case *ast.IndexExpr:
		if tv, ok := info.Types[x.X]; ok && tv.IsType() {
			return
		}
		if _, isFn := info.TypeOf(x.X).Underlying().(*types.Signature); isFn {
			pv.leaf(out, Leaf{Kind: "unknown", Name: "generic function value", Node: x})
			return
		}
		pv.collect(x.X, -1, out, seen, bind, depth)
	case *ast.SliceExpr:
		pv.collect(x.X, -1, out, seen, bind, depth)
	case *ast.StarExpr:
		pv.collect(x.X, -1, out, seen, bind, depth)
	case *ast.UnaryExpr:
		pv.collect(x.X, -1, out, seen, bind, depth)
	case *ast.BinaryExpr:
		pv.collect(x.X, -1, out, seen, bind, depth)
		pv.collect(x.Y, -1, out, seen, bind, depth)
	case *ast.TypeAssertExpr:
		if idx <= 0 {
			pv.collect(x.X, -1, out, seen, bind, depth)
		}
	case *ast.KeyValueExpr:
		pv.collect(x.Value, -1, out, seen, bind, depth)
	case *ast.CallExpr:
		pv.collectCall(x, idx, out, seen, bind, depth)
	default:
		pv.leaf(out, Leaf{Kind: "unknown", Name: "expression " + types.ExprString(e), Node: e})
	}
}

// isLocalValue: e is (a field chain / element of) a local variable that holds a struct, array, slice or map value
// reached without a pointer dereference, so that a store through it is visible in the variable's definitions.
func (pv *Prov) isLocalValue(e ast.Expr) bool {
	for {
		e = ast.Unparen(e)
		t := pv.Info.TypeOf(e)
		if t == nil {
			return false
		}
		if _, isPtr := t.Underlying().(*types.Pointer); isPtr {
			return false
		}
		switch x := e.(type) {
		case *ast.Ident:
			v := VarOf(pv.Info, x)
			return v != nil && !v.IsField() && v.Pkg() != nil && v.Parent() != v.Pkg().Scope()
		case *ast.SelectorExpr:
			if sel := pv.Info.Selections[x]; sel == nil || sel.Kind() != types.FieldVal {
				return false
			}
			e = x.X
		case *ast.IndexExpr:
			e = x.X
		default:
			return false
		}
	}
}

func ownerName(t types.Type) string {
	if p, ok := t.(*types.Pointer); ok {
		t = p.Elem()
	}
	if n, ok := t.(*types.Named); ok {
		return n.Obj().Name()
	}
	return t.String()
}

func (pv *Prov) collectCall(call *ast.CallExpr, idx int, out map[string]Leaf, seen map[*types.Var]bool, bind *provBind, depth int) {
	info := pv.Info
	fun := ast.Unparen(call.Fun)
	// conversion
	if tv, ok := info.Types[fun]; ok && tv.IsType() {
		for _, a := range call.Args {
			pv.collect(a, -1, out, seen, bind, depth)
		}
		return
	}
	// builtins
	if id, ok := fun.(*ast.Ident); ok {
		if b, ok := info.Uses[id].(*types.Builtin); ok {
			switch b.Name() {
			case "append":
				for _, a := range call.Args {
					pv.collect(a, -1, out, seen, bind, depth)
				}
			case "make", "new", "len", "cap":
				// fresh / scalar: no element provenance
			case "min", "max":
				for _, a := range call.Args {
					pv.collect(a, -1, out, seen, bind, depth)
				}
			default:
				pv.leaf(out, Leaf{Kind: "unknown", Name: "builtin " + b.Name(), Node: call})
			}
			return
		}
	}
	// closure: immediately invoked literal or a closure variable with a single literal definition
	var fl *ast.FuncLit
	if l, ok := fun.(*ast.FuncLit); ok {
		fl = l
	} else if v := VarOf(info, fun); v != nil && pv.litOf[v] != nil && pv.litDefs[v] == 1 {
		fl = pv.litOf[v]
	}
	if fl != nil {
		if len(pv.retLit[fl]) == 0 {
			return
		}
		for _, rs := range pv.retLit[fl] {
			pv.collectReturn(rs, fl, idx, out, seen, bind, depth)
		}
		return
	}
	fn := Callee(info, call)
	if fn == nil {
		pv.leaf(out, Leaf{Kind: "unknown", Name: "dynamic call " + types.ExprString(call.Fun), Node: call})
		return
	}
	ridx := idx
	if ridx < 0 {
		ridx = 0
	}
	if pv.Summary != nil {
		if from, ok := pv.Summary(call, fn, ridx); ok {
			for _, a := range from {
				pv.collect(a, -1, out, seen, bind, depth)
			}
			return
		}
	}
	if pv.Inline != nil && pv.Inline(fn) && depth < pv.MaxDepth {
		if fi := pv.P.DeclOf(fn); fi != nil && fi.Decl.Body != nil {
			child := pv.children[fn]
			if child == nil {
				child = NewProv(pv.P, fi)
				child.Summary, child.Inline, child.MaxDepth = pv.Summary, pv.Inline, pv.MaxDepth
				pv.children[fn] = child
			}
			nb := &provBind{caller: pv, args: map[*types.Var][]ast.Expr{}, seen: seen, up: bind}
			sig := fn.Type().(*types.Signature)
			if sig.Recv() != nil {
				if sel, ok := fun.(*ast.SelectorExpr); ok {
					nb.args[child.recvVar()] = []ast.Expr{sel.X}
				}
			}
			csig := fi.Obj.Type().(*types.Signature)
			for i := 0; i < csig.Params().Len(); i++ {
				p := csig.Params().At(i)
				if csig.Variadic() && i == csig.Params().Len()-1 {
					nb.args[p] = append(nb.args[p], call.Args[min(i, len(call.Args)):]...)
				} else if i < len(call.Args) {
					nb.args[p] = []ast.Expr{call.Args[i]}
				}
			}
			cseen := map[*types.Var]bool{}
			for _, rs := range child.retDecl {
				child.collectReturn(rs, nil, idx, out, cseen, nb, depth+1)
			}
			return
		}
	}
	pv.leaf(out, Leaf{Kind: "call", Name: FuncName(fn), Idx: ridx, Node: call, Fn: fn})
}

func (pv *Prov) recvVar() *types.Var {
	for v, i := range pv.params {
		if i == -1 {
			return v
		}
	}
	return nil
}

func (pv *Prov) collectReturn(rs *ast.ReturnStmt, fl *ast.FuncLit, idx int, out map[string]Leaf, seen map[*types.Var]bool, bind *provBind, depth int) {
	k := idx
	if k < 0 {
		k = 0
	}
	var sig *types.Signature
	if fl != nil {
		sig, _ = pv.Info.TypeOf(fl).(*types.Signature)
	} else {
		sig = pv.Fi.Obj.Type().(*types.Signature)
	}
	switch {
	case len(rs.Results) == 0:
		// naked return: named result variable
		if sig != nil && k < sig.Results().Len() {
			pv.collectVar(sig.Results().At(k), rs, out, seen, bind, depth)
		}
	case sig != nil && len(rs.Results) == 1 && sig.Results().Len() > 1:
		pv.collect(rs.Results[0], k, out, seen, bind, depth)
	case k < len(rs.Results):
		pv.collect(rs.Results[k], -1, out, seen, bind, depth)
	}
}

// ReturnLeaves returns the provenance of the k-th result of the analysed function over all its return statements.
func (pv *Prov) ReturnLeaves(k int) map[string]Leaf {
	out := map[string]Leaf{}
	seen := map[*types.Var]bool{}
	for _, rs := range pv.retDecl {
		pv.collectReturn(rs, nil, k, out, seen, nil, 0)
	}
	return out
}

// DefCount returns how many definitions (assignments, range clauses, element/field stores) v has in the function.
func (pv *Prov) DefCount(v *types.Var) int { return len(pv.defs[v]) }

// DefExprs returns the right-hand sides of all definitions of v (nil entries: zero value).
func (pv *Prov) DefExprs(v *types.Var) []ast.Expr {
	var out []ast.Expr
	for _, d := range pv.defs[v] {
		out = append(out, d.rhs)
	}
	return out
}
