package core

import (
	"go/ast"
	"go/types"
)

// StaticCalls is the module's static call relation. For every declared
// function (function literals are attributed to the declared function that
// contains them; go and defer calls count) it holds the declared module
// functions it may call, resolved through the type checker. A call of an
// interface method is resolved to every module method of that name whose
// receiver type implements the interface. Calls through plain function values
// cannot be resolved; they are counted in DynCalls, and every place where a
// declared function is used as a value (method value, function value) is
// recorded in ValueRefs so that a rule can treat "takes the value" like "calls".
type StaticCalls struct {
	P         *Program
	Callees   map[*types.Func]map[*types.Func]bool
	Callers   map[*types.Func]map[*types.Func]bool
	DynCalls  map[*types.Func]int
	ValueRefs map[*types.Func]map[*types.Func]bool // function used as a value -> functions that do so
}

var staticCallsCache = map[*Program]*StaticCalls{}

// BuildStaticCalls computes the relation once per program (cached).
func (p *Program) BuildStaticCalls() *StaticCalls {
	if sc := staticCallsCache[p]; sc != nil {
		return sc
	}
	sc := &StaticCalls{P: p, Callees: map[*types.Func]map[*types.Func]bool{}, Callers: map[*types.Func]map[*types.Func]bool{},
		DynCalls: map[*types.Func]int{}, ValueRefs: map[*types.Func]map[*types.Func]bool{}}
	byName := map[string][]*types.Func{}
	for fn := range p.decls {
		if sig, ok := fn.Type().(*types.Signature); ok && sig.Recv() != nil {
			byName[fn.Name()] = append(byName[fn.Name()], fn)
		}
	}
	add := func(m map[*types.Func]map[*types.Func]bool, k, v *types.Func) {
		if m[k] == nil {
			m[k] = map[*types.Func]bool{}
		}
		m[k][v] = true
	}
	for fn, fi := range p.decls {
		if fi.Decl.Body == nil {
			continue
		}
		info := fi.Pkg.TypesInfo
		calleeIdent := map[*ast.Ident]bool{}
		ast.Inspect(fi.Decl.Body, func(n ast.Node) bool {
			call, ok := n.(*ast.CallExpr)
			if !ok {
				return true
			}
			fun := ast.Unparen(call.Fun)
			switch f := fun.(type) {
			case *ast.Ident:
				calleeIdent[f] = true
			case *ast.SelectorExpr:
				calleeIdent[f.Sel] = true
			case *ast.FuncLit:
				return true // the body belongs to this function
			}
			if tv, ok := info.Types[fun]; ok && tv.IsType() {
				return true
			}
			if id, ok := fun.(*ast.Ident); ok {
				if _, isB := info.Uses[id].(*types.Builtin); isB {
					return true
				}
			}
			callee := Callee(info, call)
			if callee == nil {
				sc.DynCalls[fn]++
				return true
			}
			if p.decls[callee] != nil {
				add(sc.Callees, fn, callee)
				add(sc.Callers, callee, fn)
				return true
			}
			if sig, ok := callee.Type().(*types.Signature); ok && sig.Recv() != nil {
				if it, ok := sig.Recv().Type().Underlying().(*types.Interface); ok {
					for _, m := range byName[callee.Name()] {
						rt := m.Type().(*types.Signature).Recv().Type()
						if types.Implements(rt, it) || types.Implements(types.NewPointer(rt), it) {
							add(sc.Callees, fn, m)
							add(sc.Callers, m, fn)
						}
					}
				}
			}
			return true
		})
		ast.Inspect(fi.Decl.Body, func(n ast.Node) bool {
			id, ok := n.(*ast.Ident)
			if !ok || calleeIdent[id] {
				return true
			}
			if f, ok := info.Uses[id].(*types.Func); ok && p.decls[f.Origin()] != nil {
				add(sc.ValueRefs, f.Origin(), fn)
			}
			return true
		})
	}
	staticCallsCache[p] = sc
	return sc
}

// MayReach returns the declared functions from which one of the targets is
// reachable over static calls, targets included. Taking a target (or a
// function that reaches it) as a value counts like calling it.
func (sc *StaticCalls) MayReach(targets ...*types.Func) map[*types.Func]bool {
	return sc.MayReachAvoiding(nil, targets...)
}

// MayReachAvoiding is MayReach over the relation with the functions in avoid removed
// (a path through an avoided function does not count; avoided functions are not in the result).
func (sc *StaticCalls) MayReachAvoiding(avoid map[*types.Func]bool, targets ...*types.Func) map[*types.Func]bool {
	out := map[*types.Func]bool{}
	var stack []*types.Func
	push := func(f *types.Func) {
		if f != nil && !out[f] && !avoid[f] {
			out[f] = true
			stack = append(stack, f)
		}
	}
	for _, t := range targets {
		push(t)
	}
	for len(stack) > 0 {
		f := stack[len(stack)-1]
		stack = stack[:len(stack)-1]
		for c := range sc.Callers[f] {
			push(c)
		}
		for c := range sc.ValueRefs[f] {
			push(c)
		}
	}
	return out
}
