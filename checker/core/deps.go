package core

import (
	"go/types"

	"golang.org/x/tools/go/ssa"
)

// Engine E6 (intraprocedural part): data-dependence closure of an SSA value.
//
// Deps walks the operands of a value transitively inside its function and
// records the *sources* it is computed from: struct fields that are loaded
// (by *types.Var identity), parameters and free variables, static callees and
// interface methods whose results are used, and the SSA values visited (so a
// rule can ask "is value A an operand, transitively, of value B"). Control
// dependence is ignored; φ-nodes contribute all their edges. Loads from an
// address-taken local (*ssa.Alloc) contribute every value stored to it in the
// function. Loads through other pointers contribute the pointer's own
// dependences plus, for a field address, the field.

// DepSet is the result of a dependence closure.
type DepSet struct {
	Fields  map[*types.Var]bool // struct fields loaded (x.f, via FieldAddr+load or Field)
	Params  map[*types.Var]bool // parameters / receiver
	Free    map[*types.Var]bool // captured variables
	Globals map[types.Object]bool
	Calls   map[*types.Func]bool // callees (static, or interface method for invoke mode) whose result is used
	Values  map[ssa.Value]bool   // every SSA value visited
	Unknown []string             // value kinds the walker does not model (rule must fail closed if it relies on completeness)

	// follow, when set, makes the closure interprocedural for static callees it accepts: the value of a call
	// (or of one extracted result) additionally depends on what the callee's return statements yield for
	// that result. Arguments are always included, so parameter dependences are over-approximated.
	follow func(*ssa.Function) bool
	depth  int
}

func newDepSet() *DepSet {
	return &DepSet{Fields: map[*types.Var]bool{}, Params: map[*types.Var]bool{}, Free: map[*types.Var]bool{}, Globals: map[types.Object]bool{},
		Calls: map[*types.Func]bool{}, Values: map[ssa.Value]bool{}}
}

// ValueDeps computes the dependence closure of v.
func ValueDeps(v ssa.Value) *DepSet {
	d := newDepSet()
	d.walk(v)
	return d
}

// ValueDepsFollow is ValueDeps made interprocedural: calls to static callees accepted by follow (functions
// with a body) contribute the dependences of the returned values (per result index for tuples).
func ValueDepsFollow(v ssa.Value, follow func(*ssa.Function) bool) *DepSet {
	d := newDepSet()
	d.follow = follow
	d.walk(v)
	return d
}

// walkCallee adds the dependences of result idx (-1: every result) of the followed callee of call.
func (d *DepSet) walkCallee(call *ssa.Call, idx int) bool {
	if d.follow == nil || d.depth >= 3 {
		return false
	}
	fn := call.Common().StaticCallee()
	if fn == nil || len(fn.Blocks) == 0 || !d.follow(fn) {
		return false
	}
	d.depth++
	for _, b := range fn.Blocks {
		for _, ins := range b.Instrs {
			ret, ok := ins.(*ssa.Return)
			if !ok {
				continue
			}
			for i, r := range ret.Results {
				if idx < 0 || i == idx {
					d.walk(r)
				}
			}
		}
	}
	d.depth--
	return true
}

// HasField reports whether field f was loaded.
func (d *DepSet) HasField(f *types.Var) bool { return f != nil && d.Fields[f] }

// HasCall reports whether a call to fn (by origin) contributes.
func (d *DepSet) HasCall(fn *types.Func) bool {
	if fn == nil {
		return false
	}
	return d.Calls[fn] || d.Calls[fn.Origin()]
}

func structFieldVar(t types.Type, idx int) *types.Var {
	if p, ok := t.Underlying().(*types.Pointer); ok {
		t = p.Elem()
	}
	if st, ok := t.Underlying().(*types.Struct); ok && idx < st.NumFields() {
		return st.Field(idx)
	}
	return nil
}

func (d *DepSet) walk(v ssa.Value) {
	if v == nil || d.Values[v] {
		return
	}
	d.Values[v] = true
	switch x := v.(type) {
	case *ssa.Const, *ssa.Builtin:
	case *ssa.Function:
		// a function value: its free variables arrive through MakeClosure
	case *ssa.Parameter:
		if o, ok := x.Object().(*types.Var); ok {
			d.Params[o] = true
		}
	case *ssa.FreeVar:
		// no object link in go/ssa for free variables beyond name/pos; record by position match later if needed
		d.Unknown = append(d.Unknown, "freevar:"+x.Name())
	case *ssa.Global:
		if x.Object() != nil {
			d.Globals[x.Object()] = true
		}
	case *ssa.Alloc:
		// value of an address-taken local: everything stored to it in this function
		if fn := x.Parent(); fn != nil {
			for _, b := range fn.Blocks {
				for _, ins := range b.Instrs {
					if st, ok := ins.(*ssa.Store); ok && baseAlloc(st.Addr) == x {
						d.walk(st.Val)
					}
				}
			}
		}
	case *ssa.FieldAddr:
		if f := structFieldVar(x.X.Type(), x.Field); f != nil {
			d.Fields[f] = true
		}
		d.walk(x.X)
	case *ssa.Field:
		if f := structFieldVar(x.X.Type(), x.Field); f != nil {
			d.Fields[f] = true
		}
		d.walk(x.X)
	case *ssa.IndexAddr:
		d.walk(x.X)
		d.walk(x.Index)
	case *ssa.Index:
		d.walk(x.X)
		d.walk(x.Index)
	case *ssa.Lookup:
		d.walk(x.X)
		d.walk(x.Index)
	case *ssa.UnOp:
		d.walk(x.X)
	case *ssa.BinOp:
		d.walk(x.X)
		d.walk(x.Y)
	case *ssa.Convert:
		d.walk(x.X)
	case *ssa.ChangeType:
		d.walk(x.X)
	case *ssa.ChangeInterface:
		d.walk(x.X)
	case *ssa.MakeInterface:
		d.walk(x.X)
	case *ssa.SliceToArrayPointer:
		d.walk(x.X)
	case *ssa.MultiConvert:
		d.walk(x.X)
	case *ssa.TypeAssert:
		d.walk(x.X)
	case *ssa.Extract:
		if call, ok := x.Tuple.(*ssa.Call); ok && d.walkCallee(call, x.Index) {
			// only the extracted result of a followed callee (plus the call's arguments, once)
			if !d.Values[call] {
				d.Values[call] = true
				c := call.Common()
				if o, ok := c.StaticCallee().Object().(*types.Func); ok {
					d.Calls[o.Origin()] = true
				}
				for _, a := range c.Args {
					d.walk(a)
				}
			}
			return
		}
		d.walk(x.Tuple)
	case *ssa.Slice:
		d.walk(x.X)
		d.walk(x.Low)
		d.walk(x.High)
		d.walk(x.Max)
	case *ssa.Phi:
		for _, e := range x.Edges {
			d.walk(e)
		}
	case *ssa.Call:
		c := x.Common()
		if fn := c.StaticCallee(); fn != nil {
			if o, ok := fn.Object().(*types.Func); ok {
				d.Calls[o.Origin()] = true
			}
		} else if c.IsInvoke() && c.Method != nil {
			d.Calls[c.Method.Origin()] = true
		}
		d.walk(c.Value)
		for _, a := range c.Args {
			d.walk(a)
		}
		d.walkCallee(x, -1)
	case *ssa.MakeClosure:
		for _, b := range x.Bindings {
			d.walk(b)
		}
	case *ssa.MakeSlice:
		d.walk(x.Len)
		d.walk(x.Cap)
	case *ssa.MakeMap, *ssa.MakeChan:
	case *ssa.Next:
		d.walk(x.Iter)
	case *ssa.Range:
		d.walk(x.X)
	case *ssa.Select:
		d.Unknown = append(d.Unknown, "select")
	default:
		d.Unknown = append(d.Unknown, v.String())
	}
}

// baseAlloc returns the Alloc an address is (a field/element of), or nil.
func baseAlloc(addr ssa.Value) *ssa.Alloc {
	for {
		switch a := addr.(type) {
		case *ssa.Alloc:
			return a
		case *ssa.FieldAddr:
			addr = a.X
		case *ssa.IndexAddr:
			addr = a.X
		default:
			return nil
		}
	}
}

// SSACallsTo lists the call instructions in fn (not in nested closures) whose
// static callee or invoked interface method is target (compared by origin).
func SSACallsTo(fn *ssa.Function, target *types.Func) []ssa.CallInstruction {
	var out []ssa.CallInstruction
	if fn == nil || target == nil {
		return nil
	}
	for _, b := range fn.Blocks {
		for _, ins := range b.Instrs {
			ci, ok := ins.(ssa.CallInstruction)
			if !ok {
				continue
			}
			c := ci.Common()
			if sc := c.StaticCallee(); sc != nil {
				if o, ok := sc.Object().(*types.Func); ok && o.Origin() == target.Origin() {
					out = append(out, ci)
				}
			} else if c.IsInvoke() && c.Method != nil && c.Method.Origin() == target.Origin() {
				out = append(out, ci)
			}
		}
	}
	return out
}

// SSAFieldStores lists the Store instructions in fn whose address is field f of some struct.
func SSAFieldStores(fn *ssa.Function, f *types.Var) []*ssa.Store {
	var out []*ssa.Store
	if fn == nil || f == nil {
		return nil
	}
	for _, b := range fn.Blocks {
		for _, ins := range b.Instrs {
			st, ok := ins.(*ssa.Store)
			if !ok {
				continue
			}
			if fa, ok := st.Addr.(*ssa.FieldAddr); ok && structFieldVar(fa.X.Type(), fa.Field) == f {
				out = append(out, st)
			}
		}
	}
	return out
}

// InterfaceMethod resolves method name of the interface type named typ in package path pkgPath
// among the packages reachable from the loaded program (dependencies included).
func (p *Program) InterfaceMethod(pkgPath, typ, name string) *types.Func {
	var found *types.Func
	seen := map[*types.Package]bool{}
	var visit func(pk *types.Package)
	visit = func(pk *types.Package) {
		if pk == nil || seen[pk] || found != nil {
			return
		}
		seen[pk] = true
		if pk.Path() == pkgPath {
			if tn, ok := pk.Scope().Lookup(typ).(*types.TypeName); ok {
				if it, ok := tn.Type().Underlying().(*types.Interface); ok {
					for i := 0; i < it.NumMethods(); i++ {
						if it.Method(i).Name() == name {
							found = it.Method(i)
						}
					}
				}
			}
			return
		}
		for _, imp := range pk.Imports() {
			visit(imp)
		}
	}
	for _, pk := range p.Pkgs {
		visit(pk.Types)
	}
	return found
}

// ExternalFunc resolves a package-level function of a dependency.
func (p *Program) ExternalFuncObj(pkgPath, name string) *types.Func {
	var found *types.Func
	seen := map[*types.Package]bool{}
	var visit func(pk *types.Package)
	visit = func(pk *types.Package) {
		if pk == nil || seen[pk] || found != nil {
			return
		}
		seen[pk] = true
		if pk.Path() == pkgPath {
			found, _ = pk.Scope().Lookup(name).(*types.Func)
			return
		}
		for _, imp := range pk.Imports() {
			visit(imp)
		}
	}
	for _, pk := range p.Pkgs {
		visit(pk.Types)
	}
	return found
}

// SSAEquiv reports whether two SSA values are the same value or two pure
// re-computations of it (same conversion / arithmetic tree over identical
// leaves). go/ssa performs no common-subexpression elimination, so
// `uint32(x)` written twice yields two distinct Convert instructions.
func SSAEquiv(a, b ssa.Value) bool {
	if a == b {
		return true
	}
	switch x := a.(type) {
	case *ssa.Const:
		y, ok := b.(*ssa.Const)
		return ok && types.Identical(x.Type(), y.Type()) && ((x.Value == nil && y.Value == nil) || (x.Value != nil && y.Value != nil && x.Value.ExactString() == y.Value.ExactString()))
	case *ssa.Convert:
		y, ok := b.(*ssa.Convert)
		return ok && types.Identical(x.Type(), y.Type()) && SSAEquiv(x.X, y.X)
	case *ssa.ChangeType:
		y, ok := b.(*ssa.ChangeType)
		return ok && types.Identical(x.Type(), y.Type()) && SSAEquiv(x.X, y.X)
	case *ssa.BinOp:
		y, ok := b.(*ssa.BinOp)
		return ok && x.Op == y.Op && SSAEquiv(x.X, y.X) && SSAEquiv(x.Y, y.Y)
	case *ssa.UnOp:
		y, ok := b.(*ssa.UnOp)
		// loads are not pure; only arithmetic negation/not are compared
		return ok && x.Op == y.Op && x.Op.String() != "*" && x.Op.String() != "<-" && SSAEquiv(x.X, y.X)
	}
	return false
}

// ContainsEquiv reports whether the closure visited a value equivalent to v. A value that is one
// component of a multi-result call is also considered present when the closure visited that call
// (`whole, frac := split(total)`: frac is computed together with whole from the same operand).
func (d *DepSet) ContainsEquiv(v ssa.Value) bool {
	if d.Values[v] {
		return true
	}
	if ex, ok := v.(*ssa.Extract); ok && d.Values[ex.Tuple] {
		return true
	}
	for w := range d.Values {
		if SSAEquiv(v, w) {
			return true
		}
	}
	return false
}

// FieldOfExternal resolves field `field` of struct type `typ` in a dependency package
// (promoted fields of embedded structs are searched too).
func (p *Program) FieldOfExternal(pkgPath, typ, field string) *types.Var {
	var found *types.Var
	seen := map[*types.Package]bool{}
	var findIn func(t types.Type, depth int) *types.Var
	findIn = func(t types.Type, depth int) *types.Var {
		if pt, ok := t.Underlying().(*types.Pointer); ok {
			t = pt.Elem()
		}
		st, ok := t.Underlying().(*types.Struct)
		if !ok || depth > 4 {
			return nil
		}
		for i := 0; i < st.NumFields(); i++ {
			if st.Field(i).Name() == field {
				return st.Field(i)
			}
		}
		for i := 0; i < st.NumFields(); i++ {
			if st.Field(i).Embedded() {
				if v := findIn(st.Field(i).Type(), depth+1); v != nil {
					return v
				}
			}
		}
		return nil
	}
	var visit func(pk *types.Package)
	visit = func(pk *types.Package) {
		if pk == nil || seen[pk] || found != nil {
			return
		}
		seen[pk] = true
		if pk.Path() == pkgPath {
			if tn, ok := pk.Scope().Lookup(typ).(*types.TypeName); ok {
				found = findIn(tn.Type(), 0)
			}
			return
		}
		for _, imp := range pk.Imports() {
			visit(imp)
		}
	}
	for _, pk := range p.Pkgs {
		visit(pk.Types)
	}
	return found
}

// FieldDeep resolves a chain of fields starting at struct type typ of package rel
// (e.g. FieldDeep("", "SettingEngine", "dtls", "clientAuth")); intermediate fields may be
// anonymous struct types or pointers to structs.
func (p *Program) FieldDeep(rel, typ string, path ...string) *types.Var {
	n := p.Named(rel, typ)
	if n == nil {
		return nil
	}
	var t types.Type = n
	var f *types.Var
	for _, name := range path {
		if pt, ok := t.Underlying().(*types.Pointer); ok {
			t = pt.Elem()
		}
		st, ok := t.Underlying().(*types.Struct)
		if !ok {
			return nil
		}
		f = nil
		for i := 0; i < st.NumFields(); i++ {
			if st.Field(i).Name() == name {
				f = st.Field(i)
			}
		}
		if f == nil {
			return nil
		}
		t = f.Type()
	}
	return f
}

// MethodOfExternal resolves method `name` of the (possibly unexported) named type `typ` in a dependency package.
func (p *Program) MethodOfExternal(pkgPath, typ, name string) *types.Func {
	var found *types.Func
	seen := map[*types.Package]bool{}
	var visit func(pk *types.Package)
	visit = func(pk *types.Package) {
		if pk == nil || seen[pk] || found != nil {
			return
		}
		seen[pk] = true
		if pk.Path() == pkgPath {
			if tn, ok := pk.Scope().Lookup(typ).(*types.TypeName); ok {
				if n, ok := tn.Type().(*types.Named); ok {
					for i := 0; i < n.NumMethods(); i++ {
						if n.Method(i).Name() == name {
							found = n.Method(i)
						}
					}
				}
			}
			return
		}
		for _, imp := range pk.Imports() {
			visit(imp)
		}
	}
	for _, pk := range p.Pkgs {
		visit(pk.Types)
	}
	return found
}
