package core

import (
	"go/ast"
	"go/types"
	"sort"
	"strings"
)

// Engine E3 (intraprocedural part): must-hold locksets on the node graph.

// LockOp is one recognised mutex operation.
type LockOp struct {
	Node     int
	Call     *ast.CallExpr
	Inst     string     // instance key: canonical expression of the mutex, e.g. "m.lock", "pc.mu"
	Class    string     // class key: "Type.field" of the mutex field (or var name for non-field mutexes)
	Field    *types.Var // the mutex field (nil if not a field)
	Op       string     // Lock, Unlock, RLock, RUnlock
	Deferred bool
}

// Held is a lockset: instance key -> mode ("W" or "R").
type Held map[string]string

func (h Held) clone() Held {
	n := Held{}
	for k, v := range h {
		n[k] = v
	}
	return n
}

func (h Held) key() string {
	var s []string
	for k, v := range h {
		s = append(s, k+":"+v)
	}
	sort.Strings(s)
	return strings.Join(s, ",")
}

// Has reports whether inst is held (any mode).
func (h Held) Has(inst string) bool { _, ok := h[inst]; return ok }

// HasClass reports whether some instance of the class is held; the class of an
// instance key is resolved through the LockInfo.
func (li *LockInfo) HeldClasses(h Held) map[string]string {
	out := map[string]string{}
	for inst, mode := range h {
		if c, ok := li.ClassOf[inst]; ok {
			if out[c] != "W" {
				out[c] = mode
			}
		}
	}
	return out
}

// LockInfo is the result of the lockset analysis of one graph.
type LockInfo struct {
	G       *Graph
	Ops     []LockOp
	OpAt    map[int][]LockOp
	In      map[int]Held // must-hold set on entry to each node (nil for unreachable)
	MayIn   map[int]Held // may-hold set on entry to each node
	ClassOf map[string]string
}

// isSyncMutexMethod recognises (*sync.Mutex|*sync.RWMutex).{Lock,Unlock,RLock,RUnlock}.
func lockOpOf(info *types.Info, call *ast.CallExpr) (op string, recv ast.Expr, ok bool) {
	sel, isSel := ast.Unparen(call.Fun).(*ast.SelectorExpr)
	if !isSel {
		return "", nil, false
	}
	fn := Callee(info, call)
	if fn == nil || fn.Pkg() == nil || fn.Pkg().Path() != "sync" {
		return "", nil, false
	}
	switch fn.Name() {
	case "Lock", "Unlock", "RLock", "RUnlock":
	default:
		return "", nil, false
	}
	rt := fn.Type().(*types.Signature).Recv().Type()
	if p, isP := rt.(*types.Pointer); isP {
		rt = p.Elem()
	}
	n, isN := rt.(*types.Named)
	if !isN || (n.Obj().Name() != "Mutex" && n.Obj().Name() != "RWMutex") {
		return "", nil, false
	}
	return fn.Name(), sel.X, true
}

// CanonExpr renders a selector chain rooted at an identifier as "root.f.g" ("" if not of that shape).
func CanonExpr(e ast.Expr) string {
	e = ast.Unparen(e)
	switch x := e.(type) {
	case *ast.Ident:
		return x.Name
	case *ast.SelectorExpr:
		b := CanonExpr(x.X)
		if b == "" {
			return ""
		}
		return b + "." + x.Sel.Name
	case *ast.StarExpr:
		return CanonExpr(x.X)
	case *ast.UnaryExpr:
		return CanonExpr(x.X)
	}
	return ""
}

// mutexClass names the class of a mutex expression: "Struct.field" when it is a field.
func mutexClass(info *types.Info, e ast.Expr) (string, *types.Var) {
	e = ast.Unparen(e)
	if se, ok := e.(*ast.SelectorExpr); ok {
		if sel := info.Selections[se]; sel != nil && sel.Kind() == types.FieldVal {
			fv := sel.Obj().(*types.Var)
			t := sel.Recv()
			if p, ok := t.(*types.Pointer); ok {
				t = p.Elem()
			}
			// embedded promotion: find the struct that declares the field
			owner := ownerStructName(t, fv)
			return owner + "." + fv.Name(), fv
		}
	}
	if id, ok := e.(*ast.Ident); ok {
		return "var:" + id.Name, nil
	}
	return "expr:" + types.ExprString(e), nil
}

func ownerStructName(t types.Type, fv *types.Var) string {
	if n, ok := t.(*types.Named); ok {
		if st, ok := n.Underlying().(*types.Struct); ok {
			for i := 0; i < st.NumFields(); i++ {
				if st.Field(i) == fv {
					return n.Obj().Name()
				}
			}
			for i := 0; i < st.NumFields(); i++ {
				if st.Field(i).Embedded() {
					et := st.Field(i).Type()
					if p, ok := et.(*types.Pointer); ok {
						et = p.Elem()
					}
					if s := ownerStructName(et, fv); s != "" {
						return s
					}
				}
			}
		}
		return n.Obj().Name()
	}
	return ""
}

// Locks runs the must/may lockset analysis on g.
func Locks(g *Graph) *LockInfo {
	li := &LockInfo{G: g, OpAt: map[int][]LockOp{}, In: map[int]Held{}, MayIn: map[int]Held{}, ClassOf: map[string]string{}}
	for _, n := range g.Nodes {
		if n.Ast == nil {
			continue
		}
		_, isDefer := n.Ast.(*ast.DeferStmt)
		_, isGo := n.Ast.(*ast.GoStmt)
		if isGo {
			continue
		}
		InspectShallow(n.Ast, func(x ast.Node) bool {
			call, ok := x.(*ast.CallExpr)
			if !ok {
				return true
			}
			op, recv, ok := lockOpOf(g.Info, call)
			if !ok {
				return true
			}
			inst := CanonExpr(recv)
			if inst == "" {
				inst = "expr:" + types.ExprString(recv)
			}
			class, fv := mutexClass(g.Info, recv)
			li.ClassOf[inst] = class
			lo := LockOp{Node: n.ID, Call: call, Inst: inst, Class: class, Field: fv, Op: op, Deferred: isDefer}
			li.Ops = append(li.Ops, lo)
			li.OpAt[n.ID] = append(li.OpAt[n.ID], lo)
			return true
		})
	}
	transfer := func(n int, h Held) Held {
		ops := li.OpAt[n]
		if len(ops) == 0 {
			return h
		}
		out := h.clone()
		for _, o := range ops {
			if o.Deferred {
				continue // released at function exit
			}
			switch o.Op {
			case "Lock":
				out[o.Inst] = "W"
			case "RLock":
				if out[o.Inst] != "W" {
					out[o.Inst] = "R"
				}
			case "Unlock", "RUnlock":
				delete(out, o.Inst)
			}
		}
		return out
	}
	// must analysis: intersection at joins
	must := map[int]Held{g.Entry: {}}
	may := map[int]Held{g.Entry: {}}
	work := []int{g.Entry}
	inWork := map[int]bool{g.Entry: true}
	for len(work) > 0 {
		n := work[0]
		work = work[1:]
		inWork[n] = false
		outMust := transfer(n, must[n])
		outMay := transfer(n, may[n])
		for _, e := range g.Nodes[n].Succs {
			changed := false
			if cur, ok := must[e.To]; !ok {
				must[e.To] = outMust.clone()
				may[e.To] = outMay.clone()
				changed = true
			} else {
				// intersect must
				for k, v := range cur {
					if ov, ok := outMust[k]; !ok {
						delete(cur, k)
						changed = true
					} else if ov != v && v == "W" {
						cur[k] = "R"
						changed = true
					}
				}
				// union may
				for k, v := range outMay {
					if cv, ok := may[e.To][k]; !ok || (cv == "R" && v == "W") {
						may[e.To][k] = v
						changed = true
					}
				}
			}
			if changed && !inWork[e.To] {
				work = append(work, e.To)
				inWork[e.To] = true
			}
		}
	}
	li.In = must
	li.MayIn = may
	return li
}

// UnlockNodes lists the nodes that release inst (non-deferred).
func (li *LockInfo) UnlockNodes(inst string) []int {
	var out []int
	for _, o := range li.Ops {
		if o.Inst == inst && !o.Deferred && (o.Op == "Unlock" || o.Op == "RUnlock") {
			out = append(out, o.Node)
		}
	}
	return out
}

// SameRegion reports whether nodes a and b both execute with inst held and no
// release of inst lies on any path from a to b. why explains a failure.
func (li *LockInfo) SameRegion(a, b int, inst string) (bool, string) {
	if !li.In[a].Has(inst) {
		return false, "first operation does not hold " + inst
	}
	if !li.In[b].Has(inst) {
		return false, "second operation does not hold " + inst
	}
	fromA := li.G.Reach([]int{a}, nil, nil)
	if !fromA[b] {
		return false, "second operation is not reachable from the first"
	}
	for _, u := range li.UnlockNodes(inst) {
		if !fromA[u] || u == a {
			continue
		}
		// is b reachable from u without passing a again (a new region started by re-entering a is fine)
		fromU := li.G.Reach([]int{u}, func(n int) bool { return n == a }, nil)
		if fromU[b] {
			return false, inst + " is released between the two operations"
		}
	}
	return true, ""
}
