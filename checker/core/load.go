// Package core holds the shared infrastructure of the static checker:
// loading and type-checking /repo, resolved-object lookup, the node-level
// control-flow graph built on go/cfg, and verdict/evidence plumbing.
package core

import (
	"fmt"
	"go/ast"
	"go/token"
	"go/types"
	"os"
	"sort"
	"strings"

	"golang.org/x/tools/go/packages"
	"golang.org/x/tools/go/ssa"
	"golang.org/x/tools/go/ssa/ssautil"
)

// ModPath is the module under analysis.
const ModPath = "github.com/pion/webrtc/v4"

// Program is the loaded, type-checked module.
type Program struct {
	Repo  string
	Fset  *token.FileSet
	Pkgs  []*packages.Package // all packages of the module (non-test)
	ByRel map[string]*packages.Package

	decls    map[*types.Func]*FuncInfo
	litOwner map[*ast.FuncLit]*FuncInfo
	graphs   map[ast.Node]*Graph
	ext      map[*types.Func]*FuncInfo // declarations outside the module registered by ExternalFunc (extdecl.go)

	ssaProg *ssa.Program
	ssaPkgs []*ssa.Package

	GOARCH string
}

// FuncInfo ties a declared function to its syntax and package.
type FuncInfo struct {
	Obj  *types.Func
	Decl *ast.FuncDecl
	Pkg  *packages.Package
}

// Name returns "(*T).M", "T.M" or "f".
func (f *FuncInfo) Name() string { return FuncName(f.Obj) }

// FuncName renders a function object as "(*T).M", "T.M" or "pkg.f"-less "f".
func FuncName(fn *types.Func) string {
	sig, _ := fn.Type().(*types.Signature)
	if sig != nil && sig.Recv() != nil {
		t := sig.Recv().Type()
		if p, ok := t.(*types.Pointer); ok {
			if n, ok := p.Elem().(*types.Named); ok {
				return "(*" + n.Obj().Name() + ")." + fn.Name()
			}
		}
		if n, ok := t.(*types.Named); ok {
			return n.Obj().Name() + "." + fn.Name()
		}
	}
	return fn.Name()
}

// RepoDir returns the repository to analyse (VERIF_REPO overrides for self-tests).
func RepoDir() string {
	if d := os.Getenv("VERIF_REPO"); d != "" {
		return d
	}
	return "/repo"
}

// Load type-checks every package of the module from the current working tree.
func Load(repo string, goarch string) (*Program, error) {
	env := append(os.Environ(), "GOFLAGS=-mod=mod", "GOPROXY=off", "GOSUMDB=off", "GOTOOLCHAIN=local", "GOWORK=off")
	if goarch != "" {
		env = append(env, "GOARCH="+goarch)
	}
	cfg := &packages.Config{
		Mode:  packages.LoadAllSyntax,
		Dir:   repo,
		Tests: false,
		Env:   env,
	}
	pkgs, err := packages.Load(cfg, "./...")
	if err != nil {
		return nil, fmt.Errorf("packages.Load: %w", err)
	}
	if len(pkgs) == 0 {
		return nil, fmt.Errorf("no packages loaded from %s", repo)
	}
	p := &Program{
		Repo:     repo,
		ByRel:    map[string]*packages.Package{},
		decls:    map[*types.Func]*FuncInfo{},
		litOwner: map[*ast.FuncLit]*FuncInfo{},
		graphs:   map[ast.Node]*Graph{},
		GOARCH:   goarch,
	}
	var errs []string
	for _, pk := range pkgs {
		for _, e := range pk.Errors {
			errs = append(errs, e.Error())
		}
		if !strings.HasPrefix(pk.PkgPath, ModPath) {
			continue
		}
		p.Fset = pk.Fset
		rel := strings.TrimPrefix(strings.TrimPrefix(pk.PkgPath, ModPath), "/")
		p.ByRel[rel] = pk
		p.Pkgs = append(p.Pkgs, pk)
	}
	if len(errs) > 0 {
		return nil, fmt.Errorf("type/load errors (%d): %s", len(errs), strings.Join(errs[:min(len(errs), 5)], "; "))
	}
	if p.ByRel[""] == nil {
		return nil, fmt.Errorf("root package %s not loaded", ModPath)
	}
	sort.Slice(p.Pkgs, func(i, j int) bool { return p.Pkgs[i].PkgPath < p.Pkgs[j].PkgPath })
	for _, pk := range p.Pkgs {
		for _, f := range pk.Syntax {
			for _, d := range f.Decls {
				fd, ok := d.(*ast.FuncDecl)
				if !ok {
					continue
				}
				obj, _ := pk.TypesInfo.Defs[fd.Name].(*types.Func)
				if obj == nil {
					continue
				}
				fi := &FuncInfo{Obj: obj, Decl: fd, Pkg: pk}
				p.decls[obj] = fi
				if fd.Body != nil {
					ast.Inspect(fd.Body, func(n ast.Node) bool {
						if fl, ok := n.(*ast.FuncLit); ok {
							p.litOwner[fl] = fi
						}
						return true
					})
				}
			}
		}
	}
	return p, nil
}

// Pkg returns the package at module-relative path rel ("" is the root package).
func (p *Program) Pkg(rel string) *packages.Package { return p.ByRel[rel] }

// Info returns the types.Info that covers node n's package, given its owner.
func (p *Program) InfoFor(fi *FuncInfo) *types.Info { return fi.Pkg.TypesInfo }

// DeclOf returns the declaration of fn if it is declared in the module.
func (p *Program) DeclOf(fn *types.Func) *FuncInfo {
	if fn == nil {
		return nil
	}
	if fi := p.decls[fn]; fi != nil {
		return fi
	}
	if fi := p.ext[fn]; fi != nil {
		return fi
	}
	return p.decls[fn.Origin()]
}

// AllFuncs returns every declared function of the module, sorted by position.
func (p *Program) AllFuncs() []*FuncInfo {
	var out []*FuncInfo
	for _, f := range p.decls {
		out = append(out, f)
	}
	sort.Slice(out, func(i, j int) bool { return out[i].Decl.Pos() < out[j].Decl.Pos() })
	return out
}

// OwnerOf returns the declared function enclosing a function literal.
func (p *Program) OwnerOf(fl *ast.FuncLit) *FuncInfo { return p.litOwner[fl] }

// Func looks up a function or method: name is "f", "T.M" or "(*T).M" (pointer-ness ignored).
func (p *Program) Func(rel, name string) *FuncInfo {
	pk := p.ByRel[rel]
	if pk == nil {
		return nil
	}
	name = strings.NewReplacer("(", "", ")", "", "*", "").Replace(name)
	if i := strings.Index(name, "."); i >= 0 {
		tn, mn := name[:i], name[i+1:]
		obj, _ := pk.Types.Scope().Lookup(tn).(*types.TypeName)
		if obj == nil {
			return nil
		}
		named, _ := obj.Type().(*types.Named)
		if named == nil {
			return nil
		}
		for i := 0; i < named.NumMethods(); i++ {
			if m := named.Method(i); m.Name() == mn {
				return p.decls[m]
			}
		}
		return nil
	}
	fn, _ := pk.Types.Scope().Lookup(name).(*types.Func)
	return p.decls[fn]
}

// Named returns the named type T of package rel.
func (p *Program) Named(rel, name string) *types.Named {
	pk := p.ByRel[rel]
	if pk == nil {
		return nil
	}
	obj, _ := pk.Types.Scope().Lookup(name).(*types.TypeName)
	if obj == nil {
		return nil
	}
	n, _ := obj.Type().(*types.Named)
	return n
}

// Field returns field f of struct type T in package rel.
func (p *Program) Field(rel, typ, field string) *types.Var {
	n := p.Named(rel, typ)
	if n == nil {
		return nil
	}
	st, _ := n.Underlying().(*types.Struct)
	if st == nil {
		return nil
	}
	for i := 0; i < st.NumFields(); i++ {
		if st.Field(i).Name() == field {
			return st.Field(i)
		}
	}
	return nil
}

// Const returns the package-level constant name of package rel.
func (p *Program) Const(rel, name string) *types.Const {
	pk := p.ByRel[rel]
	if pk == nil {
		return nil
	}
	c, _ := pk.Types.Scope().Lookup(name).(*types.Const)
	return c
}

// ConstsOfType lists the package-level constants of package rel whose type is T, in declaration order.
func (p *Program) ConstsOfType(rel, typ string) []*types.Const {
	pk := p.ByRel[rel]
	n := p.Named(rel, typ)
	if pk == nil || n == nil {
		return nil
	}
	var out []*types.Const
	sc := pk.Types.Scope()
	for _, nm := range sc.Names() {
		if c, ok := sc.Lookup(nm).(*types.Const); ok && types.Identical(c.Type(), n) {
			out = append(out, c)
		}
	}
	sort.Slice(out, func(i, j int) bool { return out[i].Pos() < out[j].Pos() })
	return out
}

// Pos renders a position relative to the repository root.
func (p *Program) Pos(pos token.Pos) string {
	if !pos.IsValid() {
		return "-"
	}
	ps := p.Fset.Position(pos)
	f := strings.TrimPrefix(ps.Filename, p.Repo+"/")
	return fmt.Sprintf("%s:%d:%d", f, ps.Line, ps.Column)
}

// SSA creates (once) the SSA program for the whole load. Function bodies are
// built lazily per package (SSAFunc / SSABuildAll): building every dependency
// costs seconds that most rules do not need.
func (p *Program) SSA() (*ssa.Program, []*ssa.Package) {
	if p.ssaProg == nil {
		var all []*packages.Package
		all = append(all, p.Pkgs...)
		prog, pkgs := ssautil.AllPackages(all, ssa.InstantiateGenerics)
		p.ssaProg, p.ssaPkgs = prog, pkgs
	}
	return p.ssaProg, p.ssaPkgs
}

// SSABuildAll builds the bodies of every package of the program (module and dependencies).
func (p *Program) SSABuildAll() *ssa.Program {
	prog, _ := p.SSA()
	prog.Build()
	return prog
}

// SSAFunc returns the SSA function of a declared function (building its package's bodies on first use).
func (p *Program) SSAFunc(fi *FuncInfo) *ssa.Function {
	prog, _ := p.SSA()
	if sp := prog.Package(fi.Pkg.Types); sp != nil {
		sp.Build()
	}
	return prog.FuncValue(fi.Obj)
}
