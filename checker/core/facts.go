package core

import (
	"go/ast"
	"go/constant"
	"go/token"
	"go/types"
)

// Engine E2 helper: relational facts established by CFG edges.
//
// A Fact is an atomic condition normalised to "L Op R holds on this edge".
// Compound conditions are decomposed into the atomic facts they establish
// (see EdgeFacts); rules match facts through resolved objects (FieldOf / VarOf
// / Callee), so `a || b`, nested ifs, De-Morgan rewrites and if<->switch
// conversions all yield the same facts.

// Fact is a relation that holds whenever the edge it was derived from is taken.
// For a plain boolean condition b, the fact is {L: b, Op: EQL|NEQ, R: nil}
// meaning "b is true" (EQL) or "b is false" (NEQ).
type Fact struct {
	L  ast.Expr
	Op token.Token // EQL NEQ LSS LEQ GTR GEQ
	R  ast.Expr    // nil for boolean facts
}

var negOp = map[token.Token]token.Token{
	token.EQL: token.NEQ, token.NEQ: token.EQL,
	token.LSS: token.GEQ, token.GEQ: token.LSS,
	token.GTR: token.LEQ, token.LEQ: token.GTR,
}

var mirrorOp = map[token.Token]token.Token{
	token.EQL: token.EQL, token.NEQ: token.NEQ,
	token.LSS: token.GTR, token.GTR: token.LSS,
	token.LEQ: token.GEQ, token.GEQ: token.LEQ,
}

// Flip returns the same fact with the operands exchanged.
func (f Fact) Flip() Fact {
	if f.R == nil {
		return f
	}
	return Fact{L: f.R, Op: mirrorOp[f.Op], R: f.L}
}

// IsBool reports whether the fact is a plain boolean condition; truth is its value.
func (f Fact) IsBool() (truth bool, ok bool) {
	if f.R != nil {
		return false, false
	}
	return f.Op == token.EQL, true
}

// EdgeClauses derives what taking edge e establishes, as a conjunction of
// clauses, each clause being a disjunction of atomic facts (none for
// unconditional edges, range edges and conditions that are not expressions).
// go/cfg does not split short-circuit operators, so the condition is
// decomposed here: the true edge of `a && b` establishes [a] and [b]; the
// false edge of `a || b` establishes [!a] and [!b]; the false edge of
// `a && b` establishes the single clause [!a or !b]; `!` is pushed inwards.
func (g *Graph) EdgeClauses(e Edge) [][]Fact {
	if e.Branch == 0 || e.Cond == nil || e.Range != nil {
		return nil
	}
	truth := e.Branch == 1
	if e.Tag != nil {
		op := token.EQL
		if !truth {
			op = token.NEQ
		}
		return [][]Fact{{normBool(g.Info, Fact{L: ast.Unparen(e.Tag), Op: op, R: ast.Unparen(e.Cond)})}}
	}
	return cnf(g.Info, e.Cond, truth, 0)
}

// EdgeFacts returns the atomic facts that hold unconditionally on edge e (the singleton clauses of EdgeClauses).
func (g *Graph) EdgeFacts(e Edge) []Fact {
	var out []Fact
	for _, c := range g.EdgeClauses(e) {
		if len(c) == 1 {
			out = append(out, c[0])
		}
	}
	return out
}

func cnf(info *types.Info, cond ast.Expr, truth bool, depth int) [][]Fact {
	cond = ast.Unparen(cond)
	if u, ok := cond.(*ast.UnaryExpr); ok && u.Op == token.NOT {
		return cnf(info, u.X, !truth, depth)
	}
	if b, ok := cond.(*ast.BinaryExpr); ok && (b.Op == token.LAND || b.Op == token.LOR) && depth < 6 {
		l, r := cnf(info, b.X, truth, depth+1), cnf(info, b.Y, truth, depth+1)
		if (b.Op == token.LAND) == truth {
			return append(l, r...) // conjunction
		}
		// disjunction: distribute
		var out [][]Fact
		for _, cl := range l {
			for _, cr := range r {
				if len(out) >= 64 {
					return nil // too large: establish nothing (conservative)
				}
				out = append(out, append(append([]Fact{}, cl...), cr...))
			}
		}
		return out
	}
	return [][]Fact{{factOf(info, cond, truth)}}
}

func factOf(info *types.Info, cond ast.Expr, truth bool) Fact {
	cond = ast.Unparen(cond)
	if u, ok := cond.(*ast.UnaryExpr); ok && u.Op == token.NOT {
		return factOf(info, u.X, !truth)
	}
	if b, ok := cond.(*ast.BinaryExpr); ok {
		if _, cmp := negOp[b.Op]; cmp {
			op := b.Op
			if !truth {
				op = negOp[op]
			}
			return normBool(info, Fact{L: ast.Unparen(b.X), Op: op, R: ast.Unparen(b.Y)})
		}
	}
	op := token.EQL
	if !truth {
		op = token.NEQ
	}
	return Fact{L: cond, Op: op}
}

// normBool rewrites `x == true`, `x != false`, `true == x` ... into boolean facts.
func normBool(info *types.Info, f Fact) Fact {
	if f.Op != token.EQL && f.Op != token.NEQ {
		return f
	}
	bv := func(e ast.Expr) (bool, bool) {
		if tv, ok := info.Types[e]; ok && tv.Value != nil && tv.Value.Kind() == constant.Bool {
			return constant.BoolVal(tv.Value), true
		}
		return false, false
	}
	if v, ok := bv(f.R); ok {
		truth := (f.Op == token.EQL) == v
		return factOf(info, f.L, truth)
	}
	if v, ok := bv(f.L); ok {
		truth := (f.Op == token.EQL) == v
		return factOf(info, f.R, truth)
	}
	return f
}

// EdgesWhere returns the live edges that establish pred: some clause of the
// edge consists only of facts satisfying pred (a disjunction all of whose
// alternatives are acceptable). pred is tried on each fact and, when it has
// two operands, on its flipped form.
func (g *Graph) EdgesWhere(pred func(Fact) bool) map[EdgeRef]bool {
	out := map[EdgeRef]bool{}
	live := g.Live()
	for _, n := range g.Nodes {
		if !live[n.ID] {
			continue
		}
		for i, e := range n.Succs {
			for _, clause := range g.EdgeClauses(e) {
				all := len(clause) > 0
				for _, f := range clause {
					if !(pred(f) || (f.R != nil && pred(f.Flip()))) {
						all = false
						break
					}
				}
				if all {
					out[EdgeRef{n.ID, i}] = true
					break
				}
			}
		}
	}
	return out
}

// IntConst returns the integer value of a constant expression.
func IntConst(info *types.Info, e ast.Expr) (int64, bool) {
	if e == nil {
		return 0, false
	}
	if tv, ok := info.Types[e]; ok && tv.Value != nil && tv.Value.Kind() == constant.Int {
		return constant.Int64Val(tv.Value)
	}
	return 0, false
}

// CmpConstImplies classifies the fact "x Op k" for a non-negative quantity x
// (a length): it returns +1 when the fact implies x > 0, -1 when it implies
// x == 0, and 0 otherwise.
func CmpConstImplies(op token.Token, k int64) int {
	switch op {
	case token.EQL:
		if k == 0 {
			return -1
		}
		if k > 0 {
			return +1
		}
	case token.NEQ:
		if k == 0 {
			return +1
		}
	case token.GTR:
		if k >= 0 {
			return +1
		}
	case token.GEQ:
		if k >= 1 {
			return +1
		}
	case token.LSS:
		if k <= 1 {
			return -1
		}
	case token.LEQ:
		if k <= 0 {
			return -1
		}
	}
	return 0
}

// PathObs is one terminal observation of CountBetween.
type PathObs struct {
	End   int // a stop node, g.Exit or g.Panic
	Count int // number of counted nodes passed (capped at 2)
	Flag  int // last non-zero flag set by an edge on the way (0 if none)
}

// CountBetween explores every path that leaves node start and ends at the
// first stop node (start itself may be a stop node), the function exit or a
// panic. It returns, deduplicated, how many counted nodes each path passes
// (0, 1, or 2 meaning "two or more") and the flag established on the way:
// flagOf is called for every edge taken and may return a non-zero flag that
// replaces the current one. The exploration is over the finite product
// (node x count x flag), so loops are handled exactly.
func (g *Graph) CountBetween(start int, stops map[int]bool, counted func(n int) bool, flagOf func(from int, e Edge) int) []PathObs {
	type st struct{ n, c, f int }
	seen := map[st]bool{}
	obsSeen := map[PathObs]bool{}
	var obs []PathObs
	var work []st
	push := func(s st) {
		if !seen[s] {
			seen[s] = true
			work = append(work, s)
		}
	}
	step := func(from int, c, f int) {
		for _, e := range g.Nodes[from].Succs {
			nf := f
			if flagOf != nil {
				if x := flagOf(from, e); x != 0 {
					nf = x
				}
			}
			push(st{e.To, c, nf})
		}
	}
	step(start, 0, 0)
	for len(work) > 0 {
		s := work[len(work)-1]
		work = work[:len(work)-1]
		if stops[s.n] || s.n == g.Exit || s.n == g.Panic {
			o := PathObs{End: s.n, Count: s.c, Flag: s.f}
			if !obsSeen[o] {
				obsSeen[o] = true
				obs = append(obs, o)
			}
			continue
		}
		c := s.c
		if counted(s.n) && c < 2 {
			c++
		}
		step(s.n, c, s.f)
	}
	return obs
}
