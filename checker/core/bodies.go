package core

import (
	"go/ast"
	"go/token"
	"go/types"
	"strconv"
)

// Body is one analysable function body: a declared function or a function
// literal nested in one. Literals get a label derived from how they are used
// (deferred, go, argument of a call, ...), never from a line number.
type Body struct {
	G      *Graph
	Owner  *FuncInfo    // enclosing declared function
	Lit    *ast.FuncLit // nil for the declared function itself
	Role   string       // "" (declared function), "defer", "go", "call" (invoked in place), "arg:<callee>", "value"
	Label  string       // e.g. "(*operations).start" or "(*operations).start$defer"
	Parent *Body        // body the literal is nested in (nil for declared functions)
	// Site is the statement/expression of the parent body that uses the literal
	// (the DeferStmt / GoStmt / CallExpr); nil for declared functions.
	Site ast.Node
}

// Bodies returns the body of fi followed by the bodies of all function
// literals nested in it (pre-order).
func (p *Program) Bodies(fi *FuncInfo) []*Body {
	if fi == nil || fi.Decl.Body == nil {
		return nil
	}
	root := &Body{G: p.GraphOf(fi), Owner: fi, Label: fi.Name()}
	out := []*Body{root}
	used := map[string]int{}
	var walk func(parent *Body, n ast.Node)
	walk = func(parent *Body, n ast.Node) {
		var stack []ast.Node
		ast.Inspect(n, func(x ast.Node) bool {
			if x == nil {
				stack = stack[:len(stack)-1]
				return false
			}
			if fl, ok := x.(*ast.FuncLit); ok && ast.Node(fl) != n {
				role, site := litRole(fi.Pkg.TypesInfo, fl, stack)
				label := parent.Label + "$" + role
				used[label]++
				if k := used[label]; k > 1 {
					label += "#" + strconv.Itoa(k)
				}
				b := &Body{G: p.GraphOfLit(fl), Owner: fi, Lit: fl, Role: role, Label: label, Parent: parent, Site: site}
				out = append(out, b)
				walk(b, fl)
				return false
			}
			stack = append(stack, x)
			return true
		})
	}
	walk(root, fi.Decl.Body)
	return out
}

func litRole(info *types.Info, fl *ast.FuncLit, stack []ast.Node) (string, ast.Node) {
	// nearest ancestors
	for i := len(stack) - 1; i >= 0; i-- {
		switch a := stack[i].(type) {
		case *ast.ParenExpr:
			continue
		case *ast.CallExpr:
			if ast.Unparen(a.Fun) == ast.Expr(fl) {
				// invoked in place: look one level further up for defer/go
				if i > 0 {
					switch s := stack[i-1].(type) {
					case *ast.DeferStmt:
						if s.Call == a {
							return "defer", s
						}
					case *ast.GoStmt:
						if s.Call == a {
							return "go", s
						}
					}
				}
				return "call", a
			}
			for _, arg := range a.Args {
				if ast.Unparen(arg) == ast.Expr(fl) {
					name := "dyn"
					if fn := Callee(info, a); fn != nil {
						name = FuncName(fn)
					}
					return "arg:" + name, a
				}
			}
			return "value", a
		default:
			return "value", stack[i]
		}
	}
	return "value", nil
}

// AllBodies lists the bodies of every declared function of the given packages
// (nil = the whole module).
func (p *Program) AllBodies(pkgFilter func(*FuncInfo) bool) []*Body {
	var out []*Body
	for _, fi := range p.AllFuncs() {
		if fi.Decl.Body == nil || (pkgFilter != nil && !pkgFilter(fi)) {
			continue
		}
		out = append(out, p.Bodies(fi)...)
	}
	return out
}

// FieldAccess is one syntactic access to a struct field inside a graph node.
type FieldAccess struct {
	Node  int
	Sel   *ast.SelectorExpr
	Field *types.Var
	Base  ast.Expr // Sel.X
	Write bool     // assigned, element-assigned, inc/dec, delete()d from, or address taken
	Addr  bool     // address taken (&x.f)
	How   string   // "assign", "elem-assign", "incdec", "delete", "addr", "read"
}

// FieldAccesses lists the accesses to the given fields in the live nodes of g
// (not descending into nested function literals).
func (g *Graph) FieldAccesses(fields map[*types.Var]bool) []FieldAccess {
	var out []FieldAccess
	live := g.Live()
	for _, n := range g.Nodes {
		if n.Ast == nil || !live[n.ID] {
			continue
		}
		written := map[*ast.SelectorExpr]string{}
		markRoot := func(e ast.Expr, direct, elem string) {
			how := direct
			for {
				e = ast.Unparen(e)
				switch x := e.(type) {
				case *ast.IndexExpr:
					e, how = x.X, elem
					continue
				case *ast.SliceExpr:
					e, how = x.X, elem
					continue
				case *ast.StarExpr:
					e, how = x.X, elem
					continue
				case *ast.SelectorExpr:
					written[x] = how
				}
				return
			}
		}
		InspectShallow(n.Ast, func(x ast.Node) bool {
			switch s := x.(type) {
			case *ast.AssignStmt:
				for _, l := range s.Lhs {
					markRoot(l, "assign", "elem-assign")
				}
			case *ast.IncDecStmt:
				markRoot(s.X, "incdec", "incdec")
			case *ast.RangeStmt:
				if s.Tok == token.ASSIGN {
					if s.Key != nil {
						markRoot(s.Key, "assign", "elem-assign")
					}
					if s.Value != nil {
						markRoot(s.Value, "assign", "elem-assign")
					}
				}
			case *ast.UnaryExpr:
				if s.Op == token.AND {
					if se, ok := ast.Unparen(s.X).(*ast.SelectorExpr); ok {
						written[se] = "addr"
					}
				}
			case *ast.CallExpr:
				if id, ok := ast.Unparen(s.Fun).(*ast.Ident); ok && len(s.Args) > 0 {
					if b, ok := g.Info.Uses[id].(*types.Builtin); ok && (b.Name() == "delete" || b.Name() == "clear") {
						markRoot(s.Args[0], "delete", "delete")
					}
				}
			}
			return true
		})
		InspectShallow(n.Ast, func(x ast.Node) bool {
			se, ok := x.(*ast.SelectorExpr)
			if !ok {
				return true
			}
			fv := FieldOf(g.Info, se)
			if fv == nil || !fields[fv] {
				return true
			}
			fa := FieldAccess{Node: n.ID, Sel: se, Field: fv, Base: se.X, How: "read"}
			if how, ok := written[se]; ok {
				fa.Write, fa.How = true, how
				fa.Addr = how == "addr"
			}
			out = append(out, fa)
			return true
		})
	}
	return out
}

// CallSite is one syntactic use of a declared function.
type CallSite struct {
	Body *Body
	Node int
	Call *ast.CallExpr // nil when the function is referenced without being called (method value / function value)
	Kind string        // "call", "go", "defer", "value"
}

// CallSitesOf lists every reference to fn in the given bodies.
func CallSitesOf(bodies []*Body, fn *types.Func) []CallSite {
	var out []CallSite
	for _, b := range bodies {
		if b.G == nil {
			continue
		}
		live := b.G.Live()
		for _, n := range b.G.Nodes {
			if n.Ast == nil || !live[n.ID] {
				continue
			}
			calledIdents := map[*ast.Ident]bool{}
			InspectShallow(n.Ast, func(x ast.Node) bool {
				call, ok := x.(*ast.CallExpr)
				if !ok || !IsCallTo(b.G.Info, call, fn) {
					return true
				}
				switch f := ast.Unparen(call.Fun).(type) {
				case *ast.Ident:
					calledIdents[f] = true
				case *ast.SelectorExpr:
					calledIdents[f.Sel] = true
				}
				kind := "call"
				switch s := n.Ast.(type) {
				case *ast.GoStmt:
					if s.Call == call {
						kind = "go"
					}
				case *ast.DeferStmt:
					if s.Call == call {
						kind = "defer"
					}
				}
				out = append(out, CallSite{Body: b, Node: n.ID, Call: call, Kind: kind})
				return true
			})
			InspectShallow(n.Ast, func(x ast.Node) bool {
				id, ok := x.(*ast.Ident)
				if !ok || calledIdents[id] {
					return true
				}
				if f, ok := b.G.Info.Uses[id].(*types.Func); ok && f.Origin() == fn.Origin() {
					out = append(out, CallSite{Body: b, Node: n.ID, Kind: "value"})
				}
				return true
			})
		}
	}
	return out
}

// AssumeEntryLock adds inst (held in the given mode on entry to the function,
// by contract with its callers) to the must- and may-locksets of every node
// that no path reaches through a release of inst. Nodes after a local
// re-acquisition already carry inst from the ordinary analysis.
func (li *LockInfo) AssumeEntryLock(inst, class, mode string) {
	g := li.G
	var rel []int
	for _, o := range li.Ops {
		if o.Inst == inst && !o.Deferred && (o.Op == "Unlock" || o.Op == "RUnlock") {
			rel = append(rel, o.Node)
		}
	}
	relSet := NodeSet(rel)
	// nodes reachable from entry without executing a release (a release node itself still holds the lock on entry)
	reach := g.Reach([]int{g.Entry}, func(n int) bool { return relSet[n] }, nil)
	// nodes reachable after some release
	var afterRel []int
	for _, r := range rel {
		for _, e := range g.Nodes[r].Succs {
			afterRel = append(afterRel, e.To)
		}
	}
	tainted := map[int]bool{}
	if len(afterRel) > 0 {
		tainted = g.Reach(afterRel, nil, nil)
	}
	li.ClassOf[inst] = class
	for n := range reach {
		if li.In[n] == nil {
			continue
		}
		if !tainted[n] {
			if cur, ok := li.In[n][inst]; !ok || (cur == "R" && mode == "W") {
				li.In[n][inst] = mode
			}
		}
		if cur, ok := li.MayIn[n][inst]; !ok || (cur == "R" && mode == "W") {
			li.MayIn[n][inst] = mode
		}
	}
}

// HeldInst returns the mode in which the lock instance is must-held on entry to node n ("" if not held).
func (li *LockInfo) HeldInst(n int, inst string) string {
	if h := li.In[n]; h != nil {
		return h[inst]
	}
	return ""
}

// MayHold reports whether inst may be held on entry to node n.
func (li *LockInfo) MayHold(n int, inst string) bool {
	if h := li.MayIn[n]; h != nil {
		return h.Has(inst)
	}
	return false
}

// UniqueDef returns the single expression assigned to local variable v in the
// body of g (nil if v is assigned zero or several times, is a parameter, is
// declared without a value, is assigned by a multi-value form, or has its
// address taken). node is the defining graph node.
func (g *Graph) UniqueDef(v *types.Var) (rhs ast.Expr, node int) {
	count := 0
	node = -1
	bad := false
	for _, n := range g.Nodes {
		if n.Ast == nil {
			continue
		}
		InspectShallow(n.Ast, func(x ast.Node) bool {
			switch s := x.(type) {
			case *ast.AssignStmt:
				for i, l := range s.Lhs {
					if VarOf(g.Info, l) != v {
						continue
					}
					count++
					node = n.ID
					if len(s.Rhs) == len(s.Lhs) && (s.Tok == token.ASSIGN || s.Tok == token.DEFINE) {
						rhs = s.Rhs[i]
					} else {
						bad = true
					}
				}
			case *ast.ValueSpec:
				for i, nm := range s.Names {
					if g.Info.Defs[nm] == types.Object(v) {
						count++
						node = n.ID
						if len(s.Values) == len(s.Names) {
							rhs = s.Values[i]
						} else {
							bad = true
						}
					}
				}
			case *ast.IncDecStmt:
				if VarOf(g.Info, s.X) == v {
					bad = true
				}
			case *ast.UnaryExpr:
				if s.Op == token.AND && VarOf(g.Info, s.X) == v {
					bad = true
				}
			case *ast.RangeStmt:
				if (s.Key != nil && VarOf(g.Info, s.Key) == v) || (s.Value != nil && VarOf(g.Info, s.Value) == v) {
					bad = true
				}
			}
			return true
		})
	}
	// writes from nested function literals (captured variable) make the definition non-unique
	ast.Inspect(g.Body, func(x ast.Node) bool {
		fl, ok := x.(*ast.FuncLit)
		if !ok || ast.Node(fl) == g.Fn {
			return true
		}
		ast.Inspect(fl.Body, func(y ast.Node) bool {
			switch s := y.(type) {
			case *ast.AssignStmt:
				for _, l := range s.Lhs {
					if VarOf(g.Info, l) == v {
						bad = true
					}
				}
			case *ast.IncDecStmt:
				if VarOf(g.Info, s.X) == v {
					bad = true
				}
			case *ast.UnaryExpr:
				if s.Op == token.AND && VarOf(g.Info, s.X) == v {
					bad = true
				}
			}
			return true
		})
		return false
	})
	if bad || count != 1 {
		return nil, -1
	}
	return rhs, node
}
