package core

import (
	"go/ast"
	"go/constant"
	"go/token"
	"go/types"
	"math/big"
)

// Guard facts: the branch conditions that are known to hold at a node because
// an edge carrying them dominates the node (every path from the entry to the
// node takes that edge). Used for range/underflow/nil guards (E4-lite) and
// for "this statement only runs in the arm for constant K" (dispatch rules).

// GuardFact is one branch outcome known at a node.
type GuardFact struct {
	Cond  ast.Expr // the controlling expression (for a tag switch: the case expression)
	Tag   ast.Expr // non-nil for tag-switch case tests: the fact is Tag == Cond (Truth) / Tag != Cond (!Truth)
	Truth bool
	Edge  EdgeRef
}

// DominatingFacts returns the facts whose edge dominates node n.
func (g *Graph) DominatingFacts(n int) []GuardFact {
	var out []GuardFact
	for _, nd := range g.Nodes {
		for i, e := range nd.Succs {
			if e.Cond == nil || e.Branch == 0 {
				continue
			}
			ref := EdgeRef{nd.ID, i}
			if nd.ID == n {
				continue
			}
			if g.DominatedByEdges(n, map[EdgeRef]bool{ref: true}) {
				out = append(out, GuardFact{Cond: e.Cond, Tag: e.Tag, Truth: e.Branch == 1, Edge: ref})
			}
		}
	}
	return out
}

// Between returns the nodes that lie on some path from the target of edge ref
// to node n that does not take the edge again (n excluded, the edge target included).
func (g *Graph) Between(ref EdgeRef, n int) map[int]bool {
	start := g.Nodes[ref.From].Succs[ref.Idx].To
	fwd := g.Reach([]int{start}, func(x int) bool { return x == n }, func(from, idx int, e Edge) bool { return from == ref.From && idx == ref.Idx })
	// backward reachability from n
	back := map[int]bool{n: true}
	stack := []int{n}
	for len(stack) > 0 {
		x := stack[len(stack)-1]
		stack = stack[:len(stack)-1]
		for _, p := range g.Nodes[x].Preds {
			if back[p] {
				continue
			}
			// the guarded edge itself is not re-taken
			other := false
			for i, e := range g.Nodes[p].Succs {
				if e.To == x && !(p == ref.From && i == ref.Idx) {
					other = true
				}
			}
			if !other {
				continue
			}
			back[p] = true
			stack = append(stack, p)
		}
	}
	out := map[int]bool{}
	for x := range fwd {
		if back[x] && x != n {
			out[x] = true
		}
	}
	return out
}

// RootVar returns the variable an lvalue-like expression is rooted in (x, x.f.g, x[i], *x, len(x.f)).
func RootVar(info *types.Info, e ast.Expr) *types.Var {
	for {
		e = ast.Unparen(e)
		switch x := e.(type) {
		case *ast.Ident:
			return VarOf(info, x)
		case *ast.SelectorExpr:
			if info.Selections[x] == nil {
				return nil
			}
			e = x.X
		case *ast.IndexExpr:
			e = x.X
		case *ast.StarExpr:
			e = x.X
		case *ast.SliceExpr:
			e = x.X
		case *ast.CallExpr:
			if len(x.Args) != 1 {
				return nil
			}
			e = x.Args[0] // len(x), conversions
		default:
			return nil
		}
	}
}

// MayModify reports whether node a may change a value rooted in variable v:
// an assignment/inc-dec whose target is rooted in v, taking v's address, a
// method call on v with a pointer receiver, or a closure that mentions v.
func MayModify(info *types.Info, a ast.Node, v *types.Var) bool {
	if a == nil || v == nil {
		return false
	}
	mod := false
	ast.Inspect(a, func(x ast.Node) bool {
		if mod {
			return false
		}
		switch s := x.(type) {
		case *ast.AssignStmt:
			for _, l := range s.Lhs {
				if RootVar(info, l) == v {
					mod = true
				}
			}
		case *ast.IncDecStmt:
			if RootVar(info, s.X) == v {
				mod = true
			}
		case *ast.RangeStmt:
			if s.Key != nil && RootVar(info, s.Key) == v || s.Value != nil && RootVar(info, s.Value) == v {
				mod = true
			}
		case *ast.UnaryExpr:
			if s.Op == token.AND && RootVar(info, s.X) == v {
				mod = true
			}
		case *ast.CallExpr:
			if sel, ok := ast.Unparen(s.Fun).(*ast.SelectorExpr); ok {
				if se := info.Selections[sel]; se != nil && se.Kind() == types.MethodVal && RootVar(info, sel.X) == v {
					if fn, ok := se.Obj().(*types.Func); ok {
						if r := fn.Type().(*types.Signature).Recv(); r != nil {
							if _, ptr := r.Type().(*types.Pointer); ptr {
								// pointer-receiver method on an addressable value may write it
								if _, isPtrVar := v.Type().Underlying().(*types.Pointer); !isPtrVar || true {
									mod = true
								}
							}
						}
					}
				}
			}
		case *ast.FuncLit:
			ast.Inspect(s.Body, func(y ast.Node) bool {
				if id, ok := y.(*ast.Ident); ok && info.Uses[id] == types.Object(v) {
					mod = true
				}
				return !mod
			})
			return false
		}
		return true
	})
	return mod
}

// StableSince reports whether no node between the fact's edge and n may modify a value rooted in v.
func (g *Graph) StableSince(f GuardFact, n int, v *types.Var) bool {
	if v == nil {
		return false
	}
	for x := range g.Between(f.Edge, n) {
		if a := g.Nodes[x].Ast; a != nil {
			// condition expressions do not assign; statements may
			if MayModify(g.Info, a, v) {
				return false
			}
		}
	}
	return true
}

// SameExpr compares two side-effect-free expressions structurally with every
// identifier resolved to its object (so it is insensitive to spelling but
// not to the object denoted). Constants compare by value.
func SameExpr(info *types.Info, a, b ast.Expr) bool {
	a, b = ast.Unparen(a), ast.Unparen(b)
	ta, oka := info.Types[a]
	tb, okb := info.Types[b]
	if oka && okb && ta.Value != nil && tb.Value != nil {
		return constant.Compare(ta.Value, token.EQL, tb.Value)
	}
	switch x := a.(type) {
	case *ast.Ident:
		y, ok := b.(*ast.Ident)
		if !ok {
			return false
		}
		ox, oy := info.ObjectOf(x), info.ObjectOf(y)
		return ox != nil && ox == oy
	case *ast.SelectorExpr:
		y, ok := b.(*ast.SelectorExpr)
		if !ok {
			return false
		}
		if info.ObjectOf(x.Sel) != info.ObjectOf(y.Sel) || info.ObjectOf(x.Sel) == nil {
			return false
		}
		if info.Selections[x] == nil {
			return true // qualified identifier: same object
		}
		return SameExpr(info, x.X, y.X)
	case *ast.CallExpr:
		y, ok := b.(*ast.CallExpr)
		if !ok || len(x.Args) != len(y.Args) {
			return false
		}
		// conversions, builtins and static callees
		tx, isTx := info.Types[x.Fun]
		ty, isTy := info.Types[y.Fun]
		switch {
		case isTx && isTy && tx.IsType() && ty.IsType():
			if !types.Identical(tx.Type, ty.Type) {
				return false
			}
		default:
			if !SameExpr(info, x.Fun, y.Fun) {
				return false
			}
		}
		for i := range x.Args {
			if !SameExpr(info, x.Args[i], y.Args[i]) {
				return false
			}
		}
		return true
	case *ast.BinaryExpr:
		y, ok := b.(*ast.BinaryExpr)
		return ok && x.Op == y.Op && SameExpr(info, x.X, y.X) && SameExpr(info, x.Y, y.Y)
	case *ast.UnaryExpr:
		y, ok := b.(*ast.UnaryExpr)
		return ok && x.Op == y.Op && SameExpr(info, x.X, y.X)
	case *ast.StarExpr:
		y, ok := b.(*ast.StarExpr)
		return ok && SameExpr(info, x.X, y.X)
	case *ast.IndexExpr:
		y, ok := b.(*ast.IndexExpr)
		return ok && SameExpr(info, x.X, y.X) && SameExpr(info, x.Index, y.Index)
	}
	return false
}

// Atom is a decomposed fact: X op K with K constant (normalised so that the constant is on the right), or a nil test.
type Atom struct {
	X     ast.Expr
	Op    token.Token // EQL NEQ LSS LEQ GTR GEQ
	K     constant.Value
	IsNil bool // X ==/!= nil
	GuardFact  GuardFact
}

func negate(op token.Token) token.Token {
	switch op {
	case token.EQL:
		return token.NEQ
	case token.NEQ:
		return token.EQL
	case token.LSS:
		return token.GEQ
	case token.LEQ:
		return token.GTR
	case token.GTR:
		return token.LEQ
	case token.GEQ:
		return token.LSS
	}
	return op
}

func flip(op token.Token) token.Token {
	switch op {
	case token.LSS:
		return token.GTR
	case token.LEQ:
		return token.GEQ
	case token.GTR:
		return token.LSS
	case token.GEQ:
		return token.LEQ
	}
	return op
}

// Atoms decomposes a fact into comparison atoms: && on true edges, || on false edges, ! everywhere;
// a bare boolean operand b yields the atom b == true/false.
func Atoms(info *types.Info, f GuardFact) []Atom {
	var out []Atom
	if f.Tag != nil {
		if tv, ok := info.Types[f.Cond]; ok && tv.Value != nil {
			op := token.EQL
			if !f.Truth {
				op = token.NEQ
			}
			out = append(out, Atom{X: f.Tag, Op: op, K: tv.Value, GuardFact: f})
		}
		return out
	}
	var walk func(e ast.Expr, truth bool)
	walk = func(e ast.Expr, truth bool) {
		e = ast.Unparen(e)
		switch c := e.(type) {
		case *ast.UnaryExpr:
			if c.Op == token.NOT {
				walk(c.X, !truth)
				return
			}
		case *ast.BinaryExpr:
			switch c.Op {
			case token.LAND:
				if truth {
					walk(c.X, true)
					walk(c.Y, true)
				}
				return
			case token.LOR:
				if !truth {
					walk(c.X, false)
					walk(c.Y, false)
				}
				return
			case token.EQL, token.NEQ, token.LSS, token.LEQ, token.GTR, token.GEQ:
				op := c.Op
				x, y := c.X, c.Y
				if IsNilIdent(info, y) || IsNilIdent(info, x) {
					if IsNilIdent(info, x) {
						x = y
					}
					if !truth {
						op = negate(op)
					}
					out = append(out, Atom{X: x, Op: op, IsNil: true, GuardFact: f})
					return
				}
				tx, okx := info.Types[x]
				ty, oky := info.Types[y]
				switch {
				case oky && ty.Value != nil && !(okx && tx.Value != nil):
				case okx && tx.Value != nil && !(oky && ty.Value != nil):
					x, y = y, x
					ty = tx
					op = flip(op)
				default:
					return
				}
				if !truth {
					op = negate(op)
				}
				out = append(out, Atom{X: x, Op: op, K: ty.Value, GuardFact: f})
				return
			}
		}
		// bare boolean
		if bt, ok := info.TypeOf(e).Underlying().(*types.Basic); ok && bt.Info()&types.IsBoolean != 0 {
			out = append(out, Atom{X: e, Op: token.EQL, K: constant.MakeBool(truth), GuardFact: f})
		}
	}
	walk(f.Cond, f.Truth)
	return out
}

// AtomsAt returns the atoms of all facts dominating node n whose subject is
// still valid at n (nothing between the edge and n may modify the subject's root variable).
func (g *Graph) AtomsAt(n int) []Atom {
	var out []Atom
	for _, f := range g.DominatingFacts(n) {
		for _, a := range Atoms(g.Info, f) {
			v := RootVar(g.Info, a.X)
			if v == nil {
				// pure expressions over several variables: require every variable mentioned to be stable
				ok := true
				any := false
				ast.Inspect(a.X, func(x ast.Node) bool {
					if id, isId := x.(*ast.Ident); isId {
						if vv, isVar := g.Info.Uses[id].(*types.Var); isVar && !(vv.Pkg() != nil && vv.Parent() == vv.Pkg().Scope()) && !vv.IsField() {
							any = true
							if !g.StableSince(f, n, vv) {
								ok = false
							}
						}
					}
					return true
				})
				if ok && any {
					out = append(out, a)
				}
				continue
			}
			if g.StableSince(f, n, v) {
				out = append(out, a)
			}
		}
	}
	return out
}

// ---------- intervals ----------

// Interval is a closed integer interval; nil bound = unbounded.
type Interval struct{ Lo, Hi *big.Int }

func bigOf(v constant.Value) *big.Int {
	if v == nil || v.Kind() != constant.Int {
		if v != nil && v.Kind() == constant.Float {
			if i := constant.ToInt(v); i.Kind() == constant.Int {
				return bigOf(i)
			}
		}
		return nil
	}
	if i, ok := constant.Int64Val(v); ok {
		return big.NewInt(i)
	}
	b, ok := new(big.Int).SetString(v.ExactString(), 10)
	if !ok {
		return nil
	}
	return b
}

// TypeRange returns the value range of a basic integer type (int/uint taken as 64-bit unless bits32).
func TypeRange(t types.Type, bits32 bool) (Interval, bool) {
	b, ok := t.Underlying().(*types.Basic)
	if !ok || b.Info()&types.IsInteger == 0 {
		return Interval{}, false
	}
	var bits uint
	signed := b.Info()&types.IsUnsigned == 0
	switch b.Kind() {
	case types.Int8, types.Uint8:
		bits = 8
	case types.Int16, types.Uint16:
		bits = 16
	case types.Int32, types.Uint32:
		bits = 32
	case types.Int64, types.Uint64:
		bits = 64
	case types.Int, types.Uint, types.Uintptr:
		bits = 64
		if bits32 {
			bits = 32
		}
	default:
		return Interval{}, false
	}
	one := big.NewInt(1)
	if signed {
		hi := new(big.Int).Lsh(one, bits-1)
		lo := new(big.Int).Neg(hi)
		return Interval{lo, hi.Sub(hi, one)}, true
	}
	hi := new(big.Int).Lsh(one, bits)
	return Interval{big.NewInt(0), hi.Sub(hi, one)}, true
}

func (iv Interval) Within(o Interval) bool {
	if o.Lo != nil && (iv.Lo == nil || iv.Lo.Cmp(o.Lo) < 0) {
		return false
	}
	if o.Hi != nil && (iv.Hi == nil || iv.Hi.Cmp(o.Hi) > 0) {
		return false
	}
	return true
}

func (iv Interval) String() string {
	s := "["
	if iv.Lo == nil {
		s += "-inf"
	} else {
		s += iv.Lo.String()
	}
	s += ","
	if iv.Hi == nil {
		s += "+inf"
	} else {
		s += iv.Hi.String()
	}
	return s + "]"
}

func maxBig(a, b *big.Int) *big.Int {
	if a == nil {
		return b
	}
	if b == nil {
		return a
	}
	if a.Cmp(b) >= 0 {
		return a
	}
	return b
}

func minBig(a, b *big.Int) *big.Int {
	if a == nil {
		return b
	}
	if b == nil {
		return a
	}
	if a.Cmp(b) <= 0 {
		return a
	}
	return b
}

// Meet intersects two intervals.
func (iv Interval) Meet(o Interval) Interval {
	return Interval{maxBig(iv.Lo, o.Lo), minBig(iv.Hi, o.Hi)}
}

// Join is the convex hull.
func (iv Interval) Join(o Interval) Interval {
	var lo, hi *big.Int
	if iv.Lo != nil && o.Lo != nil {
		lo = minBig(iv.Lo, o.Lo)
	}
	if iv.Hi != nil && o.Hi != nil {
		hi = maxBig(iv.Hi, o.Hi)
	}
	return Interval{lo, hi}
}

// Ranges computes value intervals of integer expressions at a node of a graph:
// type ranges, constants, len()>=0, + - * / % with interval arithmetic (falling
// back to the type range on possible wrap-around), conversions, locals through
// the join of all their definitions, all refined by the dominating guard atoms
// that speak about the same expression.
type Ranges struct {
	G        *Graph
	L        *Layout
	Bits32   bool
	atoms    map[int][]Atom
	modified map[*types.Var]bool
}

// NewRanges prepares interval queries on g.
func NewRanges(g *Graph, l *Layout) *Ranges {
	return &Ranges{G: g, L: l, atoms: map[int][]Atom{}}
}

func (r *Ranges) atomsAt(n int) []Atom {
	if a, ok := r.atoms[n]; ok {
		return a
	}
	a := r.G.AtomsAt(n)
	r.atoms[n] = a
	return a
}

// At returns the interval of e at node n.
func (r *Ranges) At(n int, e ast.Expr) Interval { return r.at(n, e, 0) }

func (r *Ranges) at(n int, e ast.Expr, depth int) Interval {
	info := r.G.Info
	e = ast.Unparen(e)
	t := info.TypeOf(e)
	tr, isInt := Interval{}, false
	if t != nil {
		tr, isInt = TypeRange(t, r.Bits32)
	}
	if tv, ok := info.Types[e]; ok && tv.Value != nil {
		if b := bigOf(tv.Value); b != nil {
			return Interval{b, b}
		}
	}
	res := tr
	if depth < 8 {
		switch x := e.(type) {
		case *ast.CallExpr:
			if tv, ok := info.Types[x.Fun]; ok && tv.IsType() && len(x.Args) == 1 {
				in := r.at(n, x.Args[0], depth+1)
				if isInt && in.Within(tr) {
					res = in
				}
			} else if id, ok := ast.Unparen(x.Fun).(*ast.Ident); ok {
				if b, ok := info.Uses[id].(*types.Builtin); ok && (b.Name() == "len" || b.Name() == "cap") {
					res = res.Meet(Interval{Lo: big.NewInt(0)})
				}
			}
		case *ast.BinaryExpr:
			a, b := r.at(n, x.X, depth+1), r.at(n, x.Y, depth+1)
			if v, ok := arith(x.Op, a, b); ok && (!isInt || v.Within(tr)) {
				res = v
			}
		case *ast.Ident:
			if v := VarOf(info, x); v != nil && r.L != nil && r.G.Owner != nil && !(v.Pkg() != nil && v.Parent() == v.Pkg().Scope()) {
				r.L.scanLocals(r.G.Owner)
				ds := r.L.defs[r.G.Owner][v]
				if len(ds) > 0 && paramIndex(r.G.Owner, v) == -2 {
					var j Interval
					ok := true
					for i, d := range ds {
						if d.kind != "assign" || d.rhs == nil || d.idx >= 0 || !r.operandsNeverModified(d.rhs) {
							ok = false
							break
						}
						// the definition's operands are evaluated with the facts known at the use site;
						// sound only for operands that are stable, which the atom filter enforces per atom
						iv := r.at(n, d.rhs, depth+1)
						if i == 0 {
							j = iv
						} else {
							j = j.Join(iv)
						}
					}
					if ok && (!isInt || j.Within(tr)) {
						res = j
					}
				}
			}
		}
	}
	// refine with guard atoms about this very expression
	for _, a := range r.atomsAt(n) {
		if a.IsNil || a.K == nil || !SameExpr(info, a.X, e) {
			continue
		}
		k := bigOf(a.K)
		if k == nil {
			continue
		}
		one := big.NewInt(1)
		switch a.Op {
		case token.EQL:
			res = res.Meet(Interval{k, k})
		case token.LEQ:
			res = res.Meet(Interval{Hi: k})
		case token.LSS:
			res = res.Meet(Interval{Hi: new(big.Int).Sub(k, one)})
		case token.GEQ:
			res = res.Meet(Interval{Lo: k})
		case token.GTR:
			res = res.Meet(Interval{Lo: new(big.Int).Add(k, one)})
		case token.NEQ:
			if res.Lo != nil && res.Lo.Cmp(k) == 0 {
				res = res.Meet(Interval{Lo: new(big.Int).Add(k, one)})
			} else if res.Hi != nil && res.Hi.Cmp(k) == 0 {
				res = res.Meet(Interval{Hi: new(big.Int).Sub(k, one)})
			}
		}
	}
	return res
}

// operandsNeverModified reports whether no variable mentioned in e is modified anywhere in the function
// (so evaluating e at a later node gives the value it had at its definition).
func (r *Ranges) operandsNeverModified(e ast.Expr) bool {
	info := r.G.Info
	ok := true
	ast.Inspect(e, func(x ast.Node) bool {
		id, isId := x.(*ast.Ident)
		if !isId {
			return true
		}
		v, isVar := info.Uses[id].(*types.Var)
		if !isVar || v.IsField() || (v.Pkg() != nil && v.Parent() == v.Pkg().Scope()) {
			return true
		}
		if r.modified == nil {
			r.modified = map[*types.Var]bool{}
		}
		m, seen := r.modified[v]
		if !seen {
			for _, nd := range r.G.Nodes {
				if nd.Ast != nil && MayModify(info, nd.Ast, v) {
					// the variable's own single definition does not count
					if as, isAs := nd.Ast.(*ast.AssignStmt); isAs && as.Tok == token.DEFINE {
						continue
					}
					m = true
				}
			}
			r.modified[v] = m
		}
		if m {
			ok = false
		}
		return true
	})
	return ok
}

// arith is interval arithmetic for + - * / % (ok=false when a bound is missing or the operation is not modelled).
func arith(op token.Token, a, b Interval) (Interval, bool) {
	if a.Lo == nil || a.Hi == nil || b.Lo == nil || b.Hi == nil {
		return Interval{}, false
	}
	n := func() *big.Int { return new(big.Int) }
	switch op {
	case token.ADD:
		return Interval{n().Add(a.Lo, b.Lo), n().Add(a.Hi, b.Hi)}, true
	case token.SUB:
		return Interval{n().Sub(a.Lo, b.Hi), n().Sub(a.Hi, b.Lo)}, true
	case token.MUL:
		c := []*big.Int{n().Mul(a.Lo, b.Lo), n().Mul(a.Lo, b.Hi), n().Mul(a.Hi, b.Lo), n().Mul(a.Hi, b.Hi)}
		lo, hi := c[0], c[0]
		for _, v := range c[1:] {
			lo, hi = minBig(lo, v), maxBig(hi, v)
		}
		return Interval{lo, hi}, true
	case token.QUO:
		if b.Lo.Sign() <= 0 {
			return Interval{}, false // divisor may be zero or negative: not modelled
		}
		// truncated division by a positive divisor is monotone in the dividend
		c := []*big.Int{n().Quo(a.Lo, b.Lo), n().Quo(a.Lo, b.Hi), n().Quo(a.Hi, b.Lo), n().Quo(a.Hi, b.Hi)}
		lo, hi := c[0], c[0]
		for _, v := range c[1:] {
			lo, hi = minBig(lo, v), maxBig(hi, v)
		}
		return Interval{lo, hi}, true
	case token.REM:
		if b.Lo.Sign() <= 0 {
			return Interval{}, false
		}
		m := n().Sub(b.Hi, big.NewInt(1))
		lo := big.NewInt(0)
		if a.Lo.Sign() < 0 {
			lo = n().Neg(m)
		}
		hi := m
		if a.Hi.Sign() < 0 {
			hi = big.NewInt(0)
		}
		// a small dividend bounds the remainder as well
		if a.Lo.Sign() >= 0 && a.Hi.Cmp(m) < 0 {
			hi = a.Hi
		}
		return Interval{lo, hi}, true
	}
	return Interval{}, false
}
