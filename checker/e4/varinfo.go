package e4

import (
	"go/ast"
	"go/token"
	"go/types"
	"strings"

	"verif/checker/core"
)

// varInfo is a flow-insensitive, module-wide classification of integer
// variables, struct fields and function results:
//
//	tame   — the value is never produced from a 64-bit source of unknown magnitude
//	         (conversion from a 64-bit integer, product of two unknowns, large shift,
//	         result of an unknown call). Sums of tame 64-bit values are treated as
//	         mathematical (no wrap-around): the stated assumption of the engine.
//	nonneg — no definition can assign a negative value.
//
// Both are greatest fixpoints: every entity starts as (tame, nonneg) and loses a
// bit as soon as one of its definitions cannot be shown to have it.
type varInfo struct {
	e      *Engine
	defs   map[any][]vdef // *types.Var or resKey
	tame   map[any]bool
	nonneg map[any]bool
}

type resKey struct {
	fn  *types.Func
	idx int
}

type vdef struct {
	info    *types.Info
	expr    ast.Expr // value expression (nil with kind != 0)
	kind    int      // 0 expr, 1 unknown, 2 rangeKey(int-like), 3 self+expr, 4 self-expr, 5 self-op(other) , 6 inc, 7 dec
	self    any
	callRes *resKey // value is result idx of a module call
	call    *ast.CallExpr
}

const (
	vdExpr = iota
	vdUnknown
	vdRangeKey
	vdAddSelf
	vdSubSelf
	vdOtherSelf
	vdInc
	vdDec
	vdCallRes
	vdNamed
)

func (e *Engine) varinfo() *varInfo {
	if e.vi != nil {
		return e.vi
	}
	vi := &varInfo{e: e, defs: map[any][]vdef{}, tame: map[any]bool{}, nonneg: map[any]bool{}}
	e.vi = vi
	e.buildCallSites()
	for _, fi := range e.P.AllFuncs() {
		if fi.Decl.Body == nil {
			continue
		}
		vi.collect(fi)
	}
	// parameters: arguments at every call site of closed functions; unknown otherwise
	for _, fi := range e.P.AllFuncs() {
		sig := fi.Obj.Type().(*types.Signature)
		closed := e.closed(fi.Obj) && len(e.callSites[fi.Obj]) > 0
		for i := 0; i < sig.Params().Len(); i++ {
			p := sig.Params().At(i)
			if !isIntegerType(p.Type()) {
				continue
			}
			if !closed || (sig.Variadic() && i == sig.Params().Len()-1) {
				vi.defs[p] = append(vi.defs[p], vdef{kind: vdUnknown})
				continue
			}
			for _, cs := range e.callSites[fi.Obj] {
				arg := argFor(sig, cs.Call, i)
				if arg == nil || cs.Caller == nil {
					vi.defs[p] = append(vi.defs[p], vdef{kind: vdUnknown})
					continue
				}
				vi.defs[p] = append(vi.defs[p], vdef{info: cs.Caller.Info, expr: arg})
			}
		}
	}
	// function literal parameters are unknown (callers not tracked)
	for k := range vi.defs {
		vi.tame[k], vi.nonneg[k] = true, true
	}
	for changed := true; changed; {
		changed = false
		for k, ds := range vi.defs {
			t, n := vi.tame[k], vi.nonneg[k]
			if !t && !n {
				continue
			}
			for _, d := range ds {
				dt, dn := vi.evalDef(k, d)
				t, n = t && dt, n && dn
			}
			if t != vi.tame[k] || n != vi.nonneg[k] {
				vi.tame[k], vi.nonneg[k] = t, n
				changed = true
			}
		}
	}
	return vi
}

func (vi *varInfo) add(k any, d vdef) { vi.defs[k] = append(vi.defs[k], d) }

// entityOf maps an assignable expression to the classified entity (local variable or struct field).
func entityOf(info *types.Info, x ast.Expr) any {
	x = ast.Unparen(x)
	switch v := x.(type) {
	case *ast.Ident:
		if o := core.VarOf(info, v); o != nil {
			return o
		}
	case *ast.SelectorExpr:
		if f := core.FieldOf(info, v); f != nil {
			return f
		}
		if o, ok := info.Uses[v.Sel].(*types.Var); ok {
			return o
		}
	}
	return nil
}

func (vi *varInfo) collect(fi *core.FuncInfo) {
	info := fi.Pkg.TypesInfo
	// result entities per enclosing function body
	type frame struct {
		sig   *types.Signature
		fn    *types.Func
		named []*types.Var
	}
	var stack []frame
	sig := fi.Obj.Type().(*types.Signature)
	push := func(s *types.Signature, fn *types.Func) {
		f := frame{sig: s, fn: fn}
		for i := 0; i < s.Results().Len(); i++ {
			f.named = append(f.named, s.Results().At(i))
		}
		stack = append(stack, f)
	}
	push(sig, fi.Obj)
	for i := 0; i < sig.Results().Len(); i++ {
		r := sig.Results().At(i)
		if r.Name() != "" && isIntegerType(r.Type()) {
			vi.add(r, vdef{info: info, kind: vdExpr, expr: nil}) // zero value: handled as const 0 (nil expr)
		}
	}
	assign := func(lhs ast.Expr, d vdef) {
		if id, ok := ast.Unparen(lhs).(*ast.Ident); ok && id.Name == "_" {
			return
		}
		t := info.TypeOf(lhs)
		if !isIntegerType(t) {
			return
		}
		k := entityOf(info, lhs)
		if k == nil {
			return // element stores etc.: not an entity we classify
		}
		d.info = info
		d.self = k
		vi.add(k, d)
	}
	var walk func(n ast.Node)
	walk = func(n ast.Node) {
		ast.Inspect(n, func(x ast.Node) bool {
			switch s := x.(type) {
			case *ast.FuncLit:
				ls, _ := info.TypeOf(s).(*types.Signature)
				if ls != nil {
					for i := 0; i < ls.Params().Len(); i++ {
						if p := ls.Params().At(i); isIntegerType(p.Type()) {
							vi.add(p, vdef{kind: vdUnknown})
						}
					}
					push(ls, nil)
					walk(s.Body)
					stack = stack[:len(stack)-1]
				}
				return false
			case *ast.AssignStmt:
				switch s.Tok {
				case token.ASSIGN, token.DEFINE:
					if len(s.Lhs) == len(s.Rhs) {
						for i, l := range s.Lhs {
							assign(l, vdef{expr: s.Rhs[i]})
						}
					} else if len(s.Rhs) == 1 {
						call, _ := ast.Unparen(s.Rhs[0]).(*ast.CallExpr)
						for i, l := range s.Lhs {
							if call == nil {
								assign(l, vdef{kind: vdUnknown}) // v, ok := m[k], x.(T), <-ch
								continue
							}
							assign(l, vdef{kind: vdCallRes, call: call, callRes: &resKey{idx: i}})
						}
					}
				case token.ADD_ASSIGN:
					assign(s.Lhs[0], vdef{kind: vdAddSelf, expr: s.Rhs[0]})
				case token.SUB_ASSIGN:
					assign(s.Lhs[0], vdef{kind: vdSubSelf, expr: s.Rhs[0]})
				default:
					assign(s.Lhs[0], vdef{kind: vdOtherSelf, expr: s.Rhs[0]})
				}
			case *ast.IncDecStmt:
				if s.Tok == token.INC {
					assign(s.X, vdef{kind: vdInc})
				} else {
					assign(s.X, vdef{kind: vdDec})
				}
			case *ast.ValueSpec:
				for i, nm := range s.Names {
					switch {
					case len(s.Values) == len(s.Names):
						assign(nm, vdef{expr: s.Values[i]})
					case len(s.Values) == 0:
						assign(nm, vdef{expr: nil})
					case len(s.Values) == 1:
						if call, ok := ast.Unparen(s.Values[0]).(*ast.CallExpr); ok {
							assign(nm, vdef{kind: vdCallRes, call: call, callRes: &resKey{idx: i}})
						} else {
							assign(nm, vdef{kind: vdUnknown})
						}
					}
				}
			case *ast.RangeStmt:
				if s.Key != nil {
					t := info.TypeOf(s.X)
					kind := vdUnknown
					if t != nil {
						switch u := t.Underlying().(type) {
						case *types.Slice, *types.Array, *types.Pointer:
							kind = vdRangeKey
						case *types.Basic:
							if u.Info()&types.IsString != 0 {
								kind = vdRangeKey
							} else if u.Info()&types.IsInteger != 0 {
								assign(s.Key, vdef{expr: s.X}) // 0..n-1: bounded by n
								kind = vdRangeKey
							}
						}
					}
					assign(s.Key, vdef{kind: kind})
				}
				if s.Value != nil {
					assign(s.Value, vdef{kind: vdUnknown}) // element values: bounded only by their type
				}
			case *ast.UnaryExpr:
				if s.Op == token.AND {
					if k := entityOf(info, s.X); k != nil && isIntegerType(info.TypeOf(s.X)) {
						vi.add(k, vdef{kind: vdUnknown})
					}
				}
			case *ast.CallExpr:
				// reflection-based decoders fill every field of the struct they are handed
				if fn := core.Callee(info, s); fn != nil && fn.Pkg() != nil && strings.HasPrefix(fn.Pkg().Path(), "encoding/") {
					for _, a := range s.Args {
						at := info.TypeOf(a)
						if at == nil {
							continue
						}
						if p, ok := at.Underlying().(*types.Pointer); ok {
							if st, ok := p.Elem().Underlying().(*types.Struct); ok {
								for i := 0; i < st.NumFields(); i++ {
									if isIntegerType(st.Field(i).Type()) {
										vi.add(st.Field(i), vdef{kind: vdUnknown})
									}
								}
							}
						}
					}
				}
			case *ast.CompositeLit:
				st, ok := info.TypeOf(s).Underlying().(*types.Struct)
				if !ok {
					if p, isP := info.TypeOf(s).Underlying().(*types.Pointer); isP {
						st, ok = p.Elem().Underlying().(*types.Struct)
					}
				}
				if ok {
					for i, el := range s.Elts {
						if kv, isKV := el.(*ast.KeyValueExpr); isKV {
							if id, isID := kv.Key.(*ast.Ident); isID {
								if f, isF := info.Uses[id].(*types.Var); isF && isIntegerType(f.Type()) {
									vi.add(f, vdef{info: info, expr: kv.Value, self: f})
								}
							}
						} else if i < st.NumFields() && isIntegerType(st.Field(i).Type()) {
							vi.add(st.Field(i), vdef{info: info, expr: el, self: st.Field(i)})
						}
					}
				}
			case *ast.ReturnStmt:
				f := stack[len(stack)-1]
				if f.fn == nil {
					return true
				}
				if len(s.Results) == f.sig.Results().Len() {
					for i, rx := range s.Results {
						if isIntegerType(f.sig.Results().At(i).Type()) {
							vi.add(resKey{f.fn, i}, vdef{info: info, expr: rx})
						}
					}
				} else if len(s.Results) == 0 {
					for i, nv := range f.named {
						if isIntegerType(nv.Type()) {
							if nv.Name() != "" {
								// bare return: the named result's current value
								vi.add(resKey{f.fn, i}, vdef{info: info, kind: vdNamed, self: nv})
							} else {
								vi.add(resKey{f.fn, i}, vdef{kind: vdUnknown})
							}
						}
					}
				} else if len(s.Results) == 1 {
					call, _ := ast.Unparen(s.Results[0]).(*ast.CallExpr)
					for i := 0; i < f.sig.Results().Len(); i++ {
						if isIntegerType(f.sig.Results().At(i).Type()) {
							if call != nil {
								vi.add(resKey{f.fn, i}, vdef{info: info, kind: vdCallRes, call: call, callRes: &resKey{idx: i}})
							} else {
								vi.add(resKey{f.fn, i}, vdef{kind: vdUnknown})
							}
						}
					}
				}
			}
			return true
		})
	}
	walk(fi.Decl.Body)
}

func (vi *varInfo) evalDef(k any, d vdef) (tame, nonneg bool) {
	var t types.Type
	switch kk := k.(type) {
	case *types.Var:
		t = kk.Type()
	case resKey:
		t = kk.fn.Type().(*types.Signature).Results().At(kk.idx).Type()
	}
	r, _ := vi.e.intRange(t)
	byTypeTame := r.bits < 64
	byTypeNonneg := !r.signed
	switch d.kind {
	case vdExpr:
		if d.expr == nil {
			return true, true // zero value
		}
		tm, nn := vi.evalExpr(d.info, d.expr)
		return tm || byTypeTame, nn || byTypeNonneg
	case vdUnknown:
		return byTypeTame, byTypeNonneg
	case vdNamed:
		nv := d.self.(*types.Var)
		return vi.tame[nv] || byTypeTame, vi.nonneg[nv] || byTypeNonneg
	case vdRangeKey:
		return true, true
	case vdInc:
		return vi.tame[k] || byTypeTame, (vi.nonneg[k] && r.bits == 64) || byTypeNonneg
	case vdDec:
		return vi.tame[k] || byTypeTame, byTypeNonneg
	case vdAddSelf:
		tm, nn := vi.evalExpr(d.info, d.expr)
		return (tm && vi.tame[k]) || byTypeTame, (nn && vi.nonneg[k] && tm && vi.tame[k] && r.bits == 64) || byTypeNonneg
	case vdSubSelf:
		tm, _ := vi.evalExpr(d.info, d.expr)
		return (tm && vi.tame[k]) || byTypeTame, byTypeNonneg
	case vdOtherSelf:
		return byTypeTame, byTypeNonneg
	case vdCallRes:
		fn := core.Callee(d.info, d.call)
		if fn == nil {
			return byTypeTame, byTypeNonneg
		}
		if vi.e.P.DeclOf(fn) != nil {
			rk := resKey{fn, d.callRes.idx}
			if _, ok := vi.defs[rk]; ok {
				return vi.tame[rk] || byTypeTame, vi.nonneg[rk] || byTypeNonneg
			}
			return byTypeTame, byTypeNonneg
		}
		tm, nn := externalResultClass(fn, d.callRes.idx)
		return tm || byTypeTame, nn || byTypeNonneg
	}
	return byTypeTame, byTypeNonneg
}

func externalResultClass(fn *types.Func, idx int) (tame, nonneg bool) {
	name := fullName(fn)
	switch {
	case strings.HasPrefix(name, "strings.Index") || strings.HasPrefix(name, "strings.LastIndex") ||
		strings.HasPrefix(name, "bytes.Index") || strings.HasPrefix(name, "bytes.LastIndex"):
		return true, false
	case name == "io.ReadFull" || name == "io.ReadAtLeast" || name == "io.Copy":
		return idx == 0, idx == 0
	case isReadContract(fn):
		return idx == 0, idx == 0
	case name == "strings.Count" || name == "bytes.Count" || name == "unicode/utf8.RuneCountInString" || name == "unicode/utf8.RuneCount" || name == "unicode/utf8.RuneLen":
		return true, name != "unicode/utf8.RuneLen"
	}
	return false, false
}

// evalExpr classifies an expression under the current assumptions.
func (vi *varInfo) evalExpr(info *types.Info, x ast.Expr) (tame, nonneg bool) {
	x = ast.Unparen(x)
	t := info.TypeOf(x)
	if !isIntegerType(t) {
		return false, false
	}
	if k, ok := constInt(info, x); ok {
		return true, k >= 0
	}
	if tv, ok := info.Types[x]; ok && tv.Value != nil {
		return false, false // huge constant
	}
	r, _ := vi.e.intRange(t)
	byTypeTame := r.bits < 64
	byTypeNonneg := !r.signed
	or := func(tm, nn bool) (bool, bool) { return tm || byTypeTame, nn || byTypeNonneg }
	switch v := x.(type) {
	case *ast.Ident, *ast.SelectorExpr:
		k := entityOf(info, x)
		if k == nil {
			return or(false, false)
		}
		if kv, ok := k.(*types.Var); ok && kv.IsField() && kv.Exported() {
			return or(false, false) // users of the package may store anything into an exported field
		}
		if _, known := vi.defs[k]; !known {
			if kv, ok := k.(*types.Var); ok && kv.IsField() {
				// a field never assigned in the module keeps its zero value — unless the struct is
				// exported with an exported field (then users may set it)
				if !kv.Exported() {
					return or(true, true)
				}
			}
			return or(false, false)
		}
		return or(vi.tame[k], vi.nonneg[k])
	case *ast.CallExpr:
		if tv, ok := info.Types[v.Fun]; ok && tv.IsType() && len(v.Args) == 1 {
			src, oks := vi.e.intRange(info.TypeOf(v.Args[0]))
			if !oks {
				return or(false, false)
			}
			itm, inn := vi.evalExpr(info, v.Args[0])
			// tame: a source narrower than 64 bits is bounded by its type
			tm := itm || src.bits < 64
			// non-negative: operand non-negative and representable
			nn := false
			if inn || !src.signed {
				switch {
				case !r.signed:
					nn = true
				case src.bits < r.bits:
					nn = true
				case src.signed && src.bits <= r.bits:
					nn = inn
				case !src.signed && src.bits >= r.bits:
					nn = false // e.g. int(uint32) on a 32-bit int, int64(uint64)
				}
			}
			return or(tm, nn)
		}
		if id, ok := ast.Unparen(v.Fun).(*ast.Ident); ok {
			if b, ok := info.Uses[id].(*types.Builtin); ok {
				switch b.Name() {
				case "len", "cap", "copy":
					return true, true
				case "min":
					tm, nn := true, true
					for _, a := range v.Args {
						at, an := vi.evalExpr(info, a)
						tm, nn = tm && at, nn && an
					}
					return or(tm, nn)
				case "max":
					tm, nn := true, false
					for _, a := range v.Args {
						at, an := vi.evalExpr(info, a)
						tm, nn = tm && at, nn || an
					}
					return or(tm, nn)
				}
			}
		}
		if fn := core.Callee(info, v); fn != nil {
			if vi.e.P.DeclOf(fn) != nil {
				rk := resKey{fn, 0}
				if _, ok := vi.defs[rk]; ok {
					return or(vi.tame[rk], vi.nonneg[rk])
				}
			} else {
				return or(externalResultClass(fn, 0))
			}
		}
		return or(false, false)
	case *ast.UnaryExpr:
		if v.Op == token.ADD {
			return vi.evalExpr(info, v.X)
		}
		if v.Op == token.SUB {
			tm, _ := vi.evalExpr(info, v.X)
			return or(tm, false)
		}
		return or(false, false)
	case *ast.BinaryExpr:
		at, an := vi.evalExpr(info, v.X)
		bt, bn := vi.evalExpr(info, v.Y)
		kb, bConst := constInt(info, v.Y)
		ka, aConst := constInt(info, v.X)
		switch v.Op {
		case token.ADD:
			return or(at && bt, an && bn && (r.bits == 64 && at && bt || !r.signed))
		case token.SUB:
			return or(at && bt, false)
		case token.MUL:
			small := (bConst && abs64(kb) <= 256) || (aConst && abs64(ka) <= 256)
			return or(at && bt && small, an && bn && at && bt && small && r.bits == 64)
		case token.QUO:
			return or(at, an && bn)
		case token.REM:
			return or(at || bt, an)
		case token.AND:
			return or(at || bt, an || bn)
		case token.SHR:
			return or(at, an)
		case token.SHL:
			ks, ok := constInt(info, v.Y)
			return or(at && ok && ks >= 0 && ks <= 8, an && at && ok && ks >= 0 && ks <= 8 && r.bits == 64)
		case token.OR, token.XOR:
			return or(at && bt, an && bn)
		}
		return or(false, false)
	}
	return or(false, false)
}

// tameExpr reports whether 64-bit arithmetic on x may be treated as mathematical.
func (e *Engine) tameExpr(c *FnCtx, x ast.Expr) bool {
	t, _ := e.varinfo().evalExpr(c.Info, x)
	return t
}

// tameVar reports whether variable v is tame.
func (e *Engine) tameVar(v *types.Var) bool {
	vi := e.varinfo()
	if v.IsField() && v.Exported() {
		r, ok := e.intRange(v.Type())
		return ok && r.bits < 64
	}
	if _, ok := vi.defs[v]; !ok {
		r, ok := e.intRange(v.Type())
		return ok && r.bits < 64
	}
	r, _ := e.intRange(v.Type())
	return vi.tame[v] || r.bits < 64
}

// nonNegPath reports whether the integer at path p can never hold a negative value.
func (e *Engine) nonNegPath(p *Path) bool {
	vi := e.varinfo()
	var k *types.Var
	if len(p.Fields) > 0 {
		k = p.Fields[len(p.Fields)-1]
	} else {
		k = p.Root
	}
	r, ok := e.intRange(k.Type())
	if !ok {
		return false
	}
	if !r.signed {
		return true
	}
	if k.IsField() && k.Exported() {
		return false // users of the package may store anything into an exported field
	}
	if _, known := vi.defs[k]; !known {
		return k.IsField()
	}
	return vi.nonneg[k]
}
