package e4

import (
	"fmt"
	"sort"
	"strings"
)

// Atom names an integer quantity (a variable, len(path), an opaque expression occurrence ...).
type Atom string

// Lin is an affine integer term K + Σ T[a]·a. As a *fact* it means "term ≥ 0".
type Lin struct {
	K int64
	T map[Atom]int64
}

// Const returns the constant term k.
func Const(k int64) Lin { return Lin{K: k} }

// Var returns the term 1·a.
func Var(a Atom) Lin { return Lin{T: map[Atom]int64{a: 1}} }

func (l Lin) clone() Lin {
	o := Lin{K: l.K}
	if len(l.T) > 0 {
		o.T = make(map[Atom]int64, len(l.T))
		for a, c := range l.T {
			o.T[a] = c
		}
	}
	return o
}

const linLimit = int64(1) << 56

func tooBig(v int64) bool { return v > linLimit || v < -linLimit }

// Add returns l + m·k (ok=false on coefficient blow-up).
func (l Lin) AddScaled(m Lin, k int64) (Lin, bool) {
	o := l.clone()
	if tooBig(m.K) || tooBig(k) {
		return o, false
	}
	if k != 0 && (m.K > linLimit/abs64(k) || m.K < -linLimit/abs64(k)) {
		return o, false
	}
	o.K += m.K * k
	if tooBig(o.K) {
		return o, false
	}
	for a, c := range m.T {
		if k != 0 && abs64(c) > linLimit/abs64(k) {
			return o, false
		}
		if o.T == nil {
			o.T = map[Atom]int64{}
		}
		o.T[a] += c * k
		if tooBig(o.T[a]) {
			return o, false
		}
		if o.T[a] == 0 {
			delete(o.T, a)
		}
	}
	return o, true
}

// Plus returns l+m.
func (l Lin) Plus(m Lin) Lin { o, _ := l.AddScaled(m, 1); return o }

// Minus returns l-m.
func (l Lin) Minus(m Lin) Lin { o, _ := l.AddScaled(m, -1); return o }

// Scale returns k·l.
func (l Lin) Scale(k int64) Lin { o, _ := Lin{}.AddScaled(l, k); return o }

// PlusK returns l+k.
func (l Lin) PlusK(k int64) Lin { o := l.clone(); o.K += k; return o }

// IsConst reports whether l has no atoms.
func (l Lin) IsConst() bool { return len(l.T) == 0 }

// Atoms lists the atoms of l, sorted.
func (l Lin) Atoms() []Atom {
	var out []Atom
	for a := range l.T {
		out = append(out, a)
	}
	sort.Slice(out, func(i, j int) bool { return out[i] < out[j] })
	return out
}

func (l Lin) String() string {
	var parts []string
	for _, a := range l.Atoms() {
		c := l.T[a]
		switch c {
		case 1:
			parts = append(parts, string(a))
		case -1:
			parts = append(parts, "-"+string(a))
		default:
			parts = append(parts, fmt.Sprintf("%d*%s", c, a))
		}
	}
	if l.K != 0 || len(parts) == 0 {
		parts = append(parts, fmt.Sprintf("%d", l.K))
	}
	return strings.Join(parts, " + ")
}

func (l Lin) key() string { return l.String() }

func abs64(v int64) int64 {
	if v < 0 {
		return -v
	}
	return v
}

func gcd64(a, b int64) int64 {
	a, b = abs64(a), abs64(b)
	for b != 0 {
		a, b = b, a%b
	}
	return a
}

func floorDiv(a, b int64) int64 { // b > 0
	q := a / b
	if a%b != 0 && a < 0 {
		q--
	}
	return q
}

// normalize divides by the gcd of the coefficients (integer tightening of the constant).
func (l Lin) normalize() Lin {
	if len(l.T) == 0 {
		return l
	}
	var g int64
	for _, c := range l.T {
		g = gcd64(g, c)
	}
	if g <= 1 {
		return l
	}
	o := Lin{K: floorDiv(l.K, g), T: make(map[Atom]int64, len(l.T))}
	for a, c := range l.T {
		o.T[a] = c / g
	}
	return o
}

// GE returns the fact a ≥ b.
func GE(a, b Lin) Lin { return a.Minus(b) }

// LE returns the fact a ≤ b.
func LE(a, b Lin) Lin { return b.Minus(a) }

// EQ returns the two facts a ≥ b, a ≤ b.
func EQ(a, b Lin) []Lin { return []Lin{a.Minus(b), b.Minus(a)} }

// Alt is one alternative of a disjunction: a conjunction of facts.
type Alt []Lin

// Disj is a disjunction of alternatives, at least one of which holds.
type Disj []Alt

// FactSet is a conjunction of linear facts plus disjunctions.
type FactSet struct {
	Facts []Lin
	Disjs []Disj
	Notes []string // provenance, for diagnostics
}

// Add appends facts.
func (f *FactSet) Add(note string, ls ...Lin) {
	for _, l := range ls {
		f.Facts = append(f.Facts, l)
	}
	if note != "" && len(ls) > 0 {
		f.Notes = append(f.Notes, note)
	}
}

// AddDisj appends a disjunction.
func (f *FactSet) AddDisj(note string, d Disj) {
	f.Disjs = append(f.Disjs, d)
	if note != "" {
		f.Notes = append(f.Notes, note)
	}
}

// Merge appends all of g.
func (f *FactSet) Merge(g *FactSet) {
	if g == nil {
		return
	}
	f.Facts = append(f.Facts, g.Facts...)
	f.Disjs = append(f.Disjs, g.Disjs...)
	f.Notes = append(f.Notes, g.Notes...)
}

const fmMaxConstraints = 600

// infeasible reports whether the conjunction cs (each ≥ 0) has no rational (hence no integer) solution.
// It is sound: true ⇒ really infeasible. false may mean "unknown".
func infeasible(cs []Lin) bool {
	cur := dedupe(cs)
	for {
		// contradiction?
		for _, c := range cur {
			if c.IsConst() && c.K < 0 {
				return true
			}
		}
		// pick the atom with the fewest pos×neg products
		type cnt struct{ pos, neg int }
		counts := map[Atom]*cnt{}
		for _, c := range cur {
			for a, k := range c.T {
				cc := counts[a]
				if cc == nil {
					cc = &cnt{}
					counts[a] = cc
				}
				if k > 0 {
					cc.pos++
				} else {
					cc.neg++
				}
			}
		}
		if len(counts) == 0 {
			return false
		}
		var best Atom
		bestCost := -1
		var atoms []Atom
		for a := range counts {
			atoms = append(atoms, a)
		}
		sort.Slice(atoms, func(i, j int) bool { return atoms[i] < atoms[j] })
		for _, a := range atoms {
			cc := counts[a]
			cost := cc.pos*cc.neg - cc.pos - cc.neg
			if bestCost == -1 || cost < bestCost {
				best, bestCost = a, cost
			}
		}
		next, ok := eliminate(cur, best)
		if !ok {
			return false
		}
		cur = next
	}
}

// eliminate removes atom a from the system by Fourier–Motzkin combination.
func eliminate(cs []Lin, a Atom) ([]Lin, bool) {
	var pos, neg, rest []Lin
	for _, c := range cs {
		k := c.T[a]
		switch {
		case k > 0:
			pos = append(pos, c)
		case k < 0:
			neg = append(neg, c)
		default:
			rest = append(rest, c)
		}
	}
	if len(pos)*len(neg)+len(rest) > fmMaxConstraints {
		return nil, false
	}
	for _, p := range pos {
		for _, n := range neg {
			kp, kn := p.T[a], -n.T[a]
			g := gcd64(kp, kn)
			// (kn/g)*p + (kp/g)*n eliminates a
			x, ok1 := Lin{}.AddScaled(p, kn/g)
			if !ok1 {
				return nil, false
			}
			y, ok2 := x.AddScaled(n, kp/g)
			if !ok2 {
				return nil, false
			}
			delete(y.T, a)
			y = y.normalize()
			if y.IsConst() && y.K >= 0 {
				continue
			}
			rest = append(rest, y)
		}
	}
	return dedupe(rest), true
}

func dedupe(cs []Lin) []Lin {
	// keep, per coefficient vector, only the strongest constant
	type ent struct {
		l Lin
	}
	best := map[string]Lin{}
	var order []string
	for _, c := range cs {
		c = c.normalize()
		if c.IsConst() && c.K >= 0 {
			continue
		}
		k := Lin{T: c.T}.key()
		if old, ok := best[k]; ok {
			if c.K < old.K {
				best[k] = c
			}
			continue
		}
		best[k] = c
		order = append(order, k)
	}
	out := make([]Lin, 0, len(order))
	for _, k := range order {
		out = append(out, best[k])
	}
	return out
}

// Proves reports whether the fact set entails goal ≥ 0 (sound, incomplete).
func (f *FactSet) Proves(goal Lin) bool {
	neg := goal.Scale(-1).PlusK(-1) // goal ≤ -1
	// restrict to facts connected to the goal's atoms (cone of influence) to keep FM small
	base := relevant(f.Facts, f.Disjs, neg)
	if len(f.Disjs) == 0 {
		return infeasible(append(base, neg))
	}
	// only split on disjunctions that share atoms with the relevant set
	rel := atomsOf(append(base, neg))
	var disjs []Disj
	for _, d := range f.Disjs {
		if disjTouches(d, rel) {
			disjs = append(disjs, d)
		}
	}
	if len(disjs) > 6 {
		disjs = disjs[:6] // dropping a disjunction only weakens the hypotheses (sound)
	}
	var rec func(i int, acc []Lin) bool
	rec = func(i int, acc []Lin) bool {
		if i == len(disjs) {
			return infeasible(append(append([]Lin{}, acc...), neg))
		}
		for _, alt := range disjs[i] {
			if !rec(i+1, append(append([]Lin{}, acc...), alt...)) {
				return false
			}
		}
		return true
	}
	return rec(0, base)
}

func atomsOf(ls []Lin) map[Atom]bool {
	m := map[Atom]bool{}
	for _, l := range ls {
		for a := range l.T {
			m[a] = true
		}
	}
	return m
}

func disjTouches(d Disj, rel map[Atom]bool) bool {
	for _, alt := range d {
		for _, l := range alt {
			for a := range l.T {
				if rel[a] {
					return true
				}
			}
		}
	}
	return false
}

// relevant returns the facts transitively sharing atoms with the goal (disjunctions extend the cone too).
func relevant(facts []Lin, disjs []Disj, goal Lin) []Lin {
	rel := map[Atom]bool{}
	for a := range goal.T {
		rel[a] = true
	}
	used := make([]bool, len(facts))
	for changed := true; changed; {
		changed = false
		for i, f := range facts {
			if used[i] {
				continue
			}
			touch := len(f.T) == 0
			for a := range f.T {
				if rel[a] {
					touch = true
					break
				}
			}
			if touch {
				used[i] = true
				changed = true
				for a := range f.T {
					rel[a] = true
				}
			}
		}
		for _, d := range disjs {
			if disjTouches(d, rel) {
				for _, alt := range d {
					for _, l := range alt {
						for a := range l.T {
							if !rel[a] {
								rel[a] = true
								changed = true
							}
						}
					}
				}
			}
		}
	}
	var out []Lin
	for i, f := range facts {
		if used[i] {
			out = append(out, f)
		}
	}
	return out
}

// Project eliminates every atom for which keep returns false and returns the
// remaining constraints (a sound consequence of the conjunction). Disjunctions
// are ignored (weakening).
func Project(facts []Lin, keep func(Atom) bool) []Lin {
	cur := dedupe(facts)
	for {
		var victim Atom
		found := false
		var atoms []Atom
		for a := range atomsOf(cur) {
			atoms = append(atoms, a)
		}
		sort.Slice(atoms, func(i, j int) bool { return atoms[i] < atoms[j] })
		for _, a := range atoms {
			if !keep(a) {
				victim, found = a, true
				break
			}
		}
		if !found {
			break
		}
		next, ok := eliminate(cur, victim)
		if !ok {
			// cannot eliminate soundly within limits: drop every constraint mentioning the atom (weakening)
			var rest []Lin
			for _, c := range cur {
				if c.T[victim] == 0 {
					rest = append(rest, c)
				}
			}
			next = rest
		}
		cur = next
	}
	var out []Lin
	for _, c := range cur {
		if c.IsConst() {
			continue
		}
		out = append(out, c)
	}
	return out
}
