package e4

import (
	"fmt"
	"go/ast"
	"go/token"
	"go/types"
	"sort"
	"strings"

	"golang.org/x/tools/go/cfg"

	"verif/checker/core"
)

// Engine holds the cross-function state of one E4 run over one loaded program.
type Engine struct {
	P       *core.Program
	IntBits int // width of int/uint (64 on amd64, 32 on 386)

	ctxs    map[ast.Node]*FnCtx // FuncDecl / FuncLit -> context
	paths   map[Atom]*Path      // atom -> path info (for kill checks)
	opaqueN int

	callSites    map[*types.Func][]*CallSite // static call sites per module function
	fnValueUse   map[*types.Func]bool        // function used as a value (callers unknown)
	sitesBuilt   bool
	ensures      map[ensKey]*ensResult
	entryMemo    map[string]int // candidate key -> 0 unknown/in progress, 1 proven, 2 failed
	vi           *varInfo
	fieldWrites  map[*types.Func]*writeSet
	direct       map[*types.Func]*directWrites
	resVars      map[resKey]*types.Var
	resVarSet    map[*types.Var]int
	fieldInvMemo map[string]string

	// statistics
	ProveCalls int
}

// NewEngine creates an engine for a loaded program.
func NewEngine(p *core.Program) *Engine {
	bits := 64
	if p.GOARCH == "386" || p.GOARCH == "arm" {
		bits = 32
	}
	return &Engine{P: p, IntBits: bits, ctxs: map[ast.Node]*FnCtx{}, paths: map[Atom]*Path{},
		callSites: map[*types.Func][]*CallSite{}, fnValueUse: map[*types.Func]bool{},
		ensures: map[ensKey]*ensResult{}, entryMemo: map[string]int{}, fieldWrites: map[*types.Func]*writeSet{}}
}

// Path is an access path rooted at a variable: root.f1.f2...
type Path struct {
	Root   *types.Var
	Fields []*types.Var
	Ptr    bool // the path dereferences a pointer (so stores through aliases / calls may change it)
	Global bool // root is a package-level variable

	// Text != "" marks an "expression atom": a side-effect-free expression with index steps
	// (xs[i].f, split[1]) named by its text. Vars are the variables it reads; Fields the fields it selects.
	Text string
	Vars []*types.Var
}

func varID(v *types.Var) string { return fmt.Sprintf("%s·%d", v.Name(), int(v.Pos())) }

func (p *Path) key() string {
	if p.Text != "" {
		return "T(" + p.Text + ")"
	}
	var b strings.Builder
	b.WriteString(varID(p.Root))
	for _, f := range p.Fields {
		b.WriteByte('.')
		b.WriteString(varID(f))
	}
	return b.String()
}

// String renders the path with plain names (diagnostics only).
func (p *Path) String() string {
	if p.Text != "" {
		if i := strings.Index(p.Text, "#"); i >= 0 {
			return p.Text[:i]
		}
		return p.Text
	}
	s := p.Root.Name()
	for _, f := range p.Fields {
		s += "." + f.Name()
	}
	return s
}

// Point is a program point at which a fact is established.
type Point struct {
	Kind int // 0 always valid, 1 function entry, 2 after node, 3 before node, 4 on edge
	Node int
	Edge core.EdgeRef
}

const (
	PtAlways = iota
	PtEntry
	PtAfter
	PtBefore
	PtEdge
)

// PFact is a linear fact (Lin ≥ 0) with the point at which it holds.
type PFact struct {
	L    Lin
	At   Point
	Note string
}

// target is one assignment target inside a graph node.
type target struct {
	path    *Path        // non-nil when the target is a plain access path
	fields  []*types.Var // every field object selected in the target expression (for alias kills)
	deref   bool         // target stores through an explicit pointer dereference or is otherwise unclassifiable
	mapBase *Path        // element store into a map at this path (changes len)
	elem    bool         // element store x[i] = v / x[i].f = v (slice or array element written)
}

// FnCtx is the per-function (FuncDecl or FuncLit body) analysis context.
type FnCtx struct {
	E     *Engine
	G     *core.Graph
	Info  *types.Info
	Owner *core.FuncInfo
	Lit   *ast.FuncLit
	Name  string // "(*T).M" or "f" or "f$lit1"

	escaped     map[*types.Var]bool // address taken (explicitly or by a pointer-receiver method call): holders of the pointer may write it during calls
	wild        map[*types.Var]bool // address-taken, or assigned inside a nested function literal, or (in a literal) a non-final free variable
	local       map[*types.Var]bool // declared inside this body or a parameter/receiver/result of it
	nodeOf      map[ast.Node]int
	targets     map[int][]target
	calls       map[int][]*ast.CallExpr
	defs        map[*types.Var][]int // nodes assigning the variable (including range heads and declarations)
	pathDefs    map[string][]int     // nodes assigning an access path (plain variables included), by path key
	pathInfo    map[string]*Path
	candMemo    map[int]*candSet
	accessNodes []int // nodes containing an index or slice expression
	boundsMemo  map[string][]PFact
	rangeOf     map[int]*ast.RangeStmt // loop-head node -> range statement (per-iteration key/value definition)

	live       map[int]bool
	domByEdge  map[core.EdgeRef]map[int]bool
	branchList []core.EdgeRef
	fwdCache   map[string]map[int]bool
	bwdCache   map[string]map[int]bool
	factsMemo  map[int][]PFact
	inProgress map[int]bool
}

// CallSite is one static call of a module function.
type CallSite struct {
	Caller *FnCtx
	Node   int
	Call   *ast.CallExpr
}

// CtxOfDecl returns the context of a declared function.
func (e *Engine) CtxOfDecl(fi *core.FuncInfo) *FnCtx {
	if fi == nil || fi.Decl.Body == nil {
		return nil
	}
	if c := e.ctxs[fi.Decl]; c != nil {
		return c
	}
	g := e.P.GraphOf(fi)
	if g == nil {
		return nil
	}
	c := e.newCtx(g, fi, nil, fi.Name())
	e.ctxs[fi.Decl] = c
	return c
}

// CtxOfLit returns the context of a function literal.
func (e *Engine) CtxOfLit(fl *ast.FuncLit) *FnCtx {
	if c := e.ctxs[fl]; c != nil {
		return c
	}
	owner := e.P.OwnerOf(fl)
	if owner == nil {
		return nil
	}
	g := e.P.GraphOfLit(fl)
	if g == nil {
		return nil
	}
	// ordinal of the literal inside its owner (source order)
	ord, n := 0, 0
	ast.Inspect(owner.Decl.Body, func(x ast.Node) bool {
		if l, ok := x.(*ast.FuncLit); ok {
			n++
			if l == fl {
				ord = n
			}
		}
		return true
	})
	c := e.newCtx(g, owner, fl, fmt.Sprintf("%s$lit%d", owner.Name(), ord))
	e.ctxs[fl] = c
	return c
}

// CtxEnclosing returns the context of the innermost function body containing pos inside fi.
func (e *Engine) CtxEnclosing(fi *core.FuncInfo, pos token.Pos) *FnCtx {
	var inner *ast.FuncLit
	ast.Inspect(fi.Decl.Body, func(x ast.Node) bool {
		if l, ok := x.(*ast.FuncLit); ok {
			if l.Body.Pos() <= pos && pos < l.Body.End() {
				inner = l
			}
		}
		return true
	})
	if inner != nil {
		return e.CtxOfLit(inner)
	}
	return e.CtxOfDecl(fi)
}

func (e *Engine) newCtx(g *core.Graph, owner *core.FuncInfo, lit *ast.FuncLit, name string) *FnCtx {
	c := &FnCtx{E: e, G: g, Info: g.Info, Owner: owner, Lit: lit, Name: name,
		wild: map[*types.Var]bool{}, escaped: map[*types.Var]bool{}, local: map[*types.Var]bool{}, nodeOf: map[ast.Node]int{},
		targets: map[int][]target{}, calls: map[int][]*ast.CallExpr{}, defs: map[*types.Var][]int{},
		pathDefs: map[string][]int{}, pathInfo: map[string]*Path{}, candMemo: map[int]*candSet{}, boundsMemo: map[string][]PFact{},
		rangeOf: map[int]*ast.RangeStmt{}, fwdCache: map[string]map[int]bool{}, bwdCache: map[string]map[int]bool{},
		factsMemo: map[int][]PFact{}, inProgress: map[int]bool{}}
	c.live = g.Live()

	// locals: parameters, receiver, results, and everything defined in the body (not in nested literals)
	var ftype *ast.FuncType
	var body *ast.BlockStmt
	if lit != nil {
		ftype, body = lit.Type, lit.Body
	} else {
		ftype, body = owner.Decl.Type, owner.Decl.Body
		if owner.Decl.Recv != nil {
			for _, f := range owner.Decl.Recv.List {
				for _, n := range f.Names {
					if v, ok := c.Info.Defs[n].(*types.Var); ok {
						c.local[v] = true
					}
				}
			}
		}
	}
	for _, fl := range []*ast.FieldList{ftype.Params, ftype.Results} {
		if fl == nil {
			continue
		}
		for _, f := range fl.List {
			for _, n := range f.Names {
				if v, ok := c.Info.Defs[n].(*types.Var); ok {
					c.local[v] = true
				}
			}
		}
	}
	core.InspectShallow(body, func(x ast.Node) bool {
		if id, ok := x.(*ast.Ident); ok {
			if v, ok := c.Info.Defs[id].(*types.Var); ok && !v.IsField() {
				c.local[v] = true
			}
		}
		return true
	})

	// wild variables: address-taken anywhere in the owner declaration, or assigned inside a nested literal
	root := ast.Node(owner.Decl)
	var litStack []*ast.FuncLit
	var walk func(n ast.Node)
	walk = func(n ast.Node) {
		ast.Inspect(n, func(x ast.Node) bool {
			switch s := x.(type) {
			case *ast.FuncLit:
				litStack = append(litStack, s)
				walk(s.Body)
				litStack = litStack[:len(litStack)-1]
				return false
			case *ast.UnaryExpr:
				if s.Op == token.AND {
					if v := storageRoot(c.Info, s.X); v != nil {
						c.escaped[v] = true
					}
				}
			case *ast.AssignStmt:
				for _, l := range s.Lhs {
					c.noteLitAssign(l, litStack)
				}
			case *ast.IncDecStmt:
				c.noteLitAssign(s.X, litStack)
			case *ast.RangeStmt:
				if s.Tok == token.ASSIGN {
					if s.Key != nil {
						c.noteLitAssign(s.Key, litStack)
					}
					if s.Value != nil {
						c.noteLitAssign(s.Value, litStack)
					}
				}
			case *ast.SelectorExpr:
				// method value/call with pointer receiver on an addressable variable takes its address implicitly
				if se := c.Info.Selections[s]; se != nil && se.Kind() == types.MethodVal {
					if fn, ok := se.Obj().(*types.Func); ok {
						if sig, ok := fn.Type().(*types.Signature); ok && sig.Recv() != nil {
							if _, ptrRecv := sig.Recv().Type().(*types.Pointer); ptrRecv {
								if _, isPtr := c.Info.TypeOf(s.X).Underlying().(*types.Pointer); !isPtr {
									if v := storageRoot(c.Info, s.X); v != nil {
										c.escaped[v] = true
									}
								}
							}
						}
					}
				}
			}
			return true
		})
	}
	walk(root)

	// graph node bookkeeping
	for _, n := range g.Nodes {
		if !c.live[n.ID] {
			continue
		}
		if n.Kind == core.NHead && n.Block != nil && n.Block.Kind == cfg.KindRangeLoop {
			if rs, ok := n.Block.Stmt.(*ast.RangeStmt); ok {
				c.rangeOf[n.ID] = rs
				for _, kv := range []ast.Expr{rs.Key, rs.Value} {
					if kv == nil {
						continue
					}
					c.addTarget(n.ID, kv)
				}
			}
		}
		if n.Ast == nil {
			continue
		}
		core.InspectShallow(n.Ast, func(x ast.Node) bool {
			if _, seen := c.nodeOf[x]; !seen {
				c.nodeOf[x] = n.ID
			}
			switch s := x.(type) {
			case *ast.AssignStmt:
				for _, l := range s.Lhs {
					c.addTarget(n.ID, l)
				}
			case *ast.IncDecStmt:
				c.addTarget(n.ID, s.X)
			case *ast.ValueSpec:
				for _, nm := range s.Names {
					c.addTarget(n.ID, nm)
				}
			case *ast.CallExpr:
				c.calls[n.ID] = append(c.calls[n.ID], s)
			case *ast.IndexExpr, *ast.SliceExpr:
				if k := len(c.accessNodes); k == 0 || c.accessNodes[k-1] != n.ID {
					c.accessNodes = append(c.accessNodes, n.ID)
				}
			}
			return true
		})
		// range key/value idents placed before the loop by go/cfg are not definitions by themselves
	}
	// the pre-loop Key/Value expression nodes are not assignments; drop nothing (they carry no targets)

	// in a literal: free variables of the enclosing function are usable only when effectively final
	if lit != nil {
		assignCount := map[*types.Var]int{}
		ast.Inspect(owner.Decl, func(x ast.Node) bool {
			switch s := x.(type) {
			case *ast.AssignStmt:
				for _, l := range s.Lhs {
					if v := core.VarOf(c.Info, l); v != nil {
						assignCount[v]++
					}
				}
			case *ast.IncDecStmt:
				if v := core.VarOf(c.Info, s.X); v != nil {
					assignCount[v] += 2
				}
			case *ast.ValueSpec:
				for _, nm := range s.Names {
					if v, ok := c.Info.Defs[nm].(*types.Var); ok {
						assignCount[v]++
					}
				}
			case *ast.RangeStmt:
				for _, kv := range []ast.Expr{s.Key, s.Value} {
					if kv != nil {
						if v := core.VarOf(c.Info, kv); v != nil {
							assignCount[v] += 2 // assigned every iteration
						}
					}
				}
			}
			return true
		})
		for v, n := range assignCount {
			if !c.local[v] && n > 1 {
				c.wild[v] = true
			}
		}
	}
	return c
}

// storageRoot returns the variable whose own storage is designated by the addressable
// expression e (x, x.f with x a struct value, x[i] with x an array) — nil when the expression
// goes through a pointer or a slice (then taking its address does not expose the variable itself).
func storageRoot(info *types.Info, e ast.Expr) *types.Var {
	for {
		switch x := ast.Unparen(e).(type) {
		case *ast.Ident:
			return core.VarOf(info, x)
		case *ast.SelectorExpr:
			sel := info.Selections[x]
			if sel == nil {
				if v, ok := info.Uses[x.Sel].(*types.Var); ok {
					return v
				}
				return nil
			}
			if sel.Indirect() {
				return nil
			}
			if _, isPtr := info.TypeOf(x.X).Underlying().(*types.Pointer); isPtr {
				return nil
			}
			e = x.X
		case *ast.IndexExpr:
			if _, isArr := info.TypeOf(x.X).Underlying().(*types.Array); !isArr {
				return nil
			}
			e = x.X
		case *ast.CompositeLit:
			return nil
		default:
			return nil
		}
	}
}

func isIdent(e ast.Expr) bool { _, ok := ast.Unparen(e).(*ast.Ident); return ok }

func (c *FnCtx) noteLitAssign(lhs ast.Expr, litStack []*ast.FuncLit) {
	if len(litStack) == 0 {
		return
	}
	v := rootVar(c.Info, lhs)
	if v == nil {
		return
	}
	// assigned inside a literal in which it is not declared => captured and written
	inner := litStack[len(litStack)-1]
	if v.Pos() >= inner.Pos() && v.Pos() < inner.End() {
		return
	}
	if isIdent(lhs) {
		c.wild[v] = true
		return
	}
	// field/element store through a captured variable: the storage of a non-pointer root is written
	if _, isPtr := v.Type().Underlying().(*types.Pointer); !isPtr {
		c.wild[v] = true
	}
}

// rootVar returns the variable at the root of an access expression (x, x.f, x[i], *x, x.f[i].g ...).
func rootVar(info *types.Info, e ast.Expr) *types.Var {
	for {
		switch x := ast.Unparen(e).(type) {
		case *ast.Ident:
			return core.VarOf(info, x)
		case *ast.SelectorExpr:
			if sel := info.Selections[x]; sel == nil {
				// qualified identifier pkg.Var
				if v, ok := info.Uses[x.Sel].(*types.Var); ok {
					return v
				}
				return nil
			}
			e = x.X
		case *ast.IndexExpr:
			e = x.X
		case *ast.StarExpr:
			e = x.X
		case *ast.SliceExpr:
			e = x.X
		default:
			return nil
		}
	}
}

func (c *FnCtx) addTarget(node int, lhs ast.Expr) {
	lhs = ast.Unparen(lhs)
	if id, ok := lhs.(*ast.Ident); ok && id.Name == "_" {
		return
	}
	t := target{}
	if p := c.pathOf(lhs); p != nil {
		t.path = p
		t.fields = p.Fields
		if len(p.Fields) == 0 {
			c.defs[p.Root] = append(c.defs[p.Root], node)
		}
		k := p.key()
		if n := len(c.pathDefs[k]); n == 0 || c.pathDefs[k][n-1] != node {
			c.pathDefs[k] = append(c.pathDefs[k], node)
		}
		c.pathInfo[k] = p
	} else {
		// element store, deref store, etc.: only the field selected last (outermost) is written;
		// fields on the way to it are merely read. x.f[i] = v writes an element, not the header f.
		switch l := lhs.(type) {
		case *ast.SelectorExpr:
			if f := core.FieldOf(c.Info, l); f != nil {
				t.fields = append(t.fields, f)
			} else {
				t.deref = true
			}
		case *ast.IndexExpr:
			if _, isMap := c.Info.TypeOf(l.X).Underlying().(*types.Map); isMap {
				t.mapBase = c.pathOf(l.X)
			} else {
				t.elem = true
			}
		case *ast.StarExpr:
			t.deref = true
		default:
			t.deref = true
		}
		// a field store behind an index step also writes an element
		hasIndex := false
		ast.Inspect(lhs, func(x ast.Node) bool {
			if _, ok := x.(*ast.IndexExpr); ok {
				hasIndex = true
			}
			return true
		})
		if hasIndex {
			t.elem = true
		}
	}
	c.targets[node] = append(c.targets[node], t)
}

// pathOf resolves an expression to an access path (nil when it is not one).
func (c *FnCtx) pathOf(e ast.Expr) *Path {
	e = ast.Unparen(e)
	switch x := e.(type) {
	case *ast.Ident:
		v := core.VarOf(c.Info, x)
		if v == nil || v.IsField() {
			return nil
		}
		p := &Path{Root: v, Ptr: c.escaped[v]}
		if v.Parent() != nil && v.Pkg() != nil && v.Parent() == v.Pkg().Scope() {
			p.Global = true
		}
		return p
	case *ast.SelectorExpr:
		sel := c.Info.Selections[x]
		if sel == nil || sel.Kind() != types.FieldVal {
			return nil
		}
		base := c.pathOf(x.X)
		if base == nil {
			return nil
		}
		// follow the (possibly embedded) field index path
		t := c.Info.TypeOf(x.X)
		p := &Path{Root: base.Root, Fields: append([]*types.Var{}, base.Fields...), Ptr: base.Ptr, Global: base.Global}
		for _, idx := range sel.Index() {
			if pt, ok := t.Underlying().(*types.Pointer); ok {
				p.Ptr = true
				t = pt.Elem()
			}
			st, ok := t.Underlying().(*types.Struct)
			if !ok {
				return nil
			}
			f := st.Field(idx)
			p.Fields = append(p.Fields, f)
			t = f.Type()
		}
		return p
	}
	return nil
}

// varPath is the access path of a plain variable.
func (c *FnCtx) varPath(v *types.Var) *Path { return &Path{Root: v, Ptr: c.escaped[v]} }

// exprPathOf names a side-effect-free expression with index steps (xs[i].f, split[1], a.b[k].c) so that two
// syntactically identical occurrences denote the same quantity while nothing it reads is written.
func (c *FnCtx) exprPathOf(e ast.Expr) *Path {
	e = ast.Unparen(e)
	p := &Path{Ptr: true}
	ok := true
	hasIndex := false
	var walk func(x ast.Expr)
	walk = func(x ast.Expr) {
		if !ok {
			return
		}
		switch v := ast.Unparen(x).(type) {
		case *ast.Ident:
			if tv, isC := c.Info.Types[v]; isC && tv.Value != nil {
				return
			}
			vr := core.VarOf(c.Info, v)
			if vr == nil || vr.IsField() || (vr.Parent() != nil && vr.Pkg() != nil && vr.Parent() == vr.Pkg().Scope()) {
				ok = false
				return
			}
			p.Vars = append(p.Vars, vr)
		case *ast.BasicLit:
		case *ast.SelectorExpr:
			f := core.FieldOf(c.Info, v)
			if f == nil {
				if tv, isC := c.Info.Types[v]; isC && tv.Value != nil {
					return // qualified constant
				}
				ok = false
				return
			}
			p.Fields = append(p.Fields, f)
			walk(v.X)
		case *ast.IndexExpr:
			t := c.Info.TypeOf(v.X)
			if t == nil {
				ok = false
				return
			}
			switch u := t.Underlying().(type) {
			case *types.Slice, *types.Array:
			case *types.Pointer:
				if _, isArr := u.Elem().Underlying().(*types.Array); !isArr {
					ok = false
					return
				}
			case *types.Basic:
				if u.Info()&types.IsString == 0 {
					ok = false
					return
				}
			default:
				ok = false
				return
			}
			hasIndex = true
			walk(v.X)
			walk(v.Index)
		case *ast.BinaryExpr:
			switch v.Op {
			case token.ADD, token.SUB, token.MUL:
				walk(v.X)
				walk(v.Y)
			default:
				ok = false
			}
		case *ast.CallExpr:
			// len(x) inside an index
			if id, isID := ast.Unparen(v.Fun).(*ast.Ident); isID && len(v.Args) == 1 {
				if b, isB := c.Info.Uses[id].(*types.Builtin); isB && (b.Name() == "len" || b.Name() == "cap") {
					walk(v.Args[0])
					return
				}
			}
			ok = false
		default:
			ok = false
		}
	}
	walk(e)
	if !ok || !hasIndex || len(p.Vars) == 0 {
		return nil
	}
	p.Root = p.Vars[0]
	var ids []string
	for _, v := range p.Vars {
		ids = append(ids, varID(v))
	}
	p.Text = types.ExprString(e) + "#" + strings.Join(ids, ",")
	return p
}

// usablePath reports whether atoms over p may be used in this context at all.
func (c *FnCtx) usablePath(p *Path) bool {
	if p == nil || p.Global {
		return false
	}
	if p.Text != "" {
		for _, v := range p.Vars {
			if c.wild[v] {
				return false
			}
		}
		return true
	}
	if c.wild[p.Root] {
		return false
	}
	return true
}

// ---- reachability helpers ----

func (c *FnCtx) ptKey(p Point) string {
	return fmt.Sprintf("%d/%d/%d/%d", p.Kind, p.Node, p.Edge.From, p.Edge.Idx)
}

// fwd returns the nodes reachable from point p (exclusive of the point itself) without re-establishing p.
func (c *FnCtx) fwd(p Point) map[int]bool {
	k := c.ptKey(p)
	if r, ok := c.fwdCache[k]; ok {
		return r
	}
	var r map[int]bool
	g := c.G
	switch p.Kind {
	case PtEntry:
		r = g.Reach([]int{g.Entry}, nil, nil)
	case PtAfter:
		var start []int
		for _, e := range g.Nodes[p.Node].Succs {
			start = append(start, e.To)
		}
		r = g.Reach(start, func(n int) bool { return n == p.Node }, nil)
	case PtBefore:
		return c.fwd(Point{Kind: PtAfter, Node: p.Node})
	case PtEdge:
		to := g.Nodes[p.Edge.From].Succs[p.Edge.Idx].To
		r = g.Reach([]int{to}, nil, func(from, idx int, e core.Edge) bool { return from == p.Edge.From && idx == p.Edge.Idx })
	}
	c.fwdCache[k] = r
	return r
}

// bwd returns the nodes from which n is reachable without passing point p, including n itself only when on a cycle.
func (c *FnCtx) bwd(n int, p Point) map[int]bool {
	k := fmt.Sprintf("%d<-%s", n, c.ptKey(p))
	if r, ok := c.bwdCache[k]; ok {
		return r
	}
	g := c.G
	seen := map[int]bool{}
	stack := []int{n}
	for len(stack) > 0 {
		x := stack[len(stack)-1]
		stack = stack[:len(stack)-1]
		for _, pr := range g.Nodes[x].Preds {
			if (p.Kind == PtAfter || p.Kind == PtBefore) && pr == p.Node {
				continue
			}
			if p.Kind == PtEdge && pr == p.Edge.From {
				// only skip the specific edge
				skipAll := true
				for i, e := range g.Nodes[pr].Succs {
					if e.To == x && !(i == p.Edge.Idx) {
						skipAll = false
					}
				}
				if skipAll {
					continue
				}
			}
			if !seen[pr] {
				seen[pr] = true
				stack = append(stack, pr)
			}
		}
	}
	c.bwdCache[k] = seen
	return seen
}

// region returns the nodes whose effects may execute between (the last establishment of) point p
// and the moment node n starts executing.
func (c *FnCtx) region(p Point, n int) map[int]bool {
	switch p.Kind {
	case PtAlways:
		return nil
	case PtBefore:
		if p.Node == n {
			return nil
		}
		out := map[int]bool{p.Node: true}
		for x := range c.region(Point{Kind: PtAfter, Node: p.Node}, n) {
			out[x] = true
		}
		return out
	}
	f := c.fwd(p)
	b := c.bwd(n, p) // contains n itself only when n lies on a cycle that avoids p
	out := map[int]bool{}
	for x := range f {
		if b[x] {
			out[x] = true
		}
	}
	return out
}

// killed reports whether atom a, established at p, may have changed before node n starts executing.
func (c *FnCtx) killed(a Atom, p Point, n int) bool {
	if p.Kind == PtAlways {
		return false
	}
	info := c.E.paths[a]
	if info == nil {
		if strings.HasPrefix(string(a), "O:") || strings.HasPrefix(string(a), "R:") {
			return false
		}
		if strings.HasPrefix(string(a), "G:") {
			return false // ghosts are checked when created
		}
		return true
	}
	for m := range c.region(p, n) {
		if c.nodeKills(m, info, a, nil) {
			return true
		}
	}
	return false
}

// nodeKills reports whether executing node m may change the quantity named by atom a (path info).
// except, when non-nil, is an expression inside m whose evaluation is the use site: only calls
// that are evaluated before it are considered (used for the use node itself).
func (c *FnCtx) nodeKills(m int, info *Path, a Atom, except ast.Node) bool {
	if info.Text != "" {
		return c.nodeKillsText(m, info)
	}
	isLen := strings.HasPrefix(string(a), "L:") || strings.HasPrefix(string(a), "C:")
	for _, t := range c.targets[m] {
		if t.path != nil {
			if t.path.Root == info.Root && isPrefix(t.path.Fields, info.Fields) {
				return true
			}
			// alias: a store to other.f where f occurs on the atom's (pointer) path
			if info.Ptr && len(t.path.Fields) > 0 && t.path.Root != info.Root {
				last := t.path.Fields[len(t.path.Fields)-1]
				for _, f := range info.Fields {
					if f == last {
						return true
					}
				}
			}
			continue
		}
		if t.mapBase != nil && isLen && t.mapBase.key() == info.key() {
			return true
		}
		if t.deref && (info.Ptr || c.wild[info.Root]) {
			return true
		}
		for _, f := range t.fields {
			for _, g := range info.Fields {
				if f == g {
					return true
				}
			}
		}
	}
	if info.Ptr {
		for _, call := range c.calls[m] {
			if c.E.callMayWrite(c, call, info) {
				return true
			}
		}
	}
	return false
}

// nodeKillsText: may executing node m change the value of the expression atom info?
// Any assignment to a variable it reads, any store to a field it selects, any element or
// dereference store, and any call not known to be pure.
func (c *FnCtx) nodeKillsText(m int, info *Path) bool {
	for _, t := range c.targets[m] {
		if t.path != nil {
			for _, v := range info.Vars {
				if t.path.Root == v {
					return true
				}
			}
			if len(t.path.Fields) > 0 {
				last := t.path.Fields[len(t.path.Fields)-1]
				for _, f := range info.Fields {
					if f == last {
						return true
					}
				}
			}
			continue
		}
		// element stores, field stores behind an index, dereference stores
		if t.deref || t.elem || t.mapBase != nil {
			return true
		}
		for _, f := range t.fields {
			for _, g := range info.Fields {
				if f == g {
					return true
				}
			}
		}
	}
	for _, call := range c.calls[m] {
		if c.E.callMayWriteAny(c, call) {
			return true
		}
	}
	return false
}

func isPrefix(a, b []*types.Var) bool {
	if len(a) > len(b) {
		return false
	}
	for i := range a {
		if a[i] != b[i] {
			return false
		}
	}
	return true
}

// dominatingEdges lists the branch edges every path from entry to n must traverse.
func (c *FnCtx) dominatingEdges(n int) []core.EdgeRef {
	if c.domByEdge == nil {
		c.domByEdge = map[core.EdgeRef]map[int]bool{}
		for _, nd := range c.G.Nodes {
			if !c.live[nd.ID] || len(nd.Succs) != 2 {
				continue
			}
			for i := range nd.Succs {
				ref := core.EdgeRef{From: nd.ID, Idx: i}
				r := c.G.ReachFromEntry(nil, func(from, idx int, e core.Edge) bool { return from == ref.From && idx == ref.Idx })
				dom := map[int]bool{}
				for x := range c.live {
					if !r[x] {
						dom[x] = true
					}
				}
				if len(dom) > 0 {
					c.domByEdge[ref] = dom
					c.branchList = append(c.branchList, ref)
				}
			}
		}
		sort.Slice(c.branchList, func(i, j int) bool {
			a, b := c.branchList[i], c.branchList[j]
			if a.From != b.From {
				return a.From < b.From
			}
			return a.Idx < b.Idx
		})
	}
	var out []core.EdgeRef
	for _, ref := range c.branchList {
		if c.domByEdge[ref][n] {
			out = append(out, ref)
		}
	}
	return out
}

// dominatesNode reports whether every path from entry to n passes through node d (d != n).
func (c *FnCtx) dominatesNode(d, n int) bool {
	if d == n {
		return false
	}
	return c.G.Dominated(n, map[int]bool{d: true})
}
