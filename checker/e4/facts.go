package e4

import (
	"fmt"
	"go/ast"
	"go/constant"
	"go/token"
	"go/types"
	"sort"
	"strings"

	"verif/checker/core"
)

// PDisj is a disjunction with the point at which it holds.
type PDisj struct {
	D  Disj
	At Point
}

// sink collects side facts produced while linearising an expression evaluated at point At.
type sink struct {
	At    Point
	Facts []PFact
	Disjs []PDisj
}

func (s *sink) fact(note string, ls ...Lin) {
	if s == nil {
		return
	}
	for _, l := range ls {
		s.Facts = append(s.Facts, PFact{L: l, At: s.At, Note: note})
	}
}

func (s *sink) always(note string, ls ...Lin) {
	if s == nil {
		return
	}
	for _, l := range ls {
		s.Facts = append(s.Facts, PFact{L: l, At: Point{Kind: PtAlways}, Note: note})
	}
}

func (s *sink) disj(d Disj) {
	if s == nil {
		return
	}
	s.Disjs = append(s.Disjs, PDisj{D: d, At: s.At})
}

// ---- integer types ----

type irange struct {
	lo, hi       int64
	hasLo, hasHi bool
	signed       bool
	bits         int
}

func (e *Engine) intRange(t types.Type) (irange, bool) {
	b, ok := t.Underlying().(*types.Basic)
	if !ok || b.Info()&types.IsInteger == 0 {
		return irange{}, false
	}
	bits, signed := 0, false
	switch b.Kind() {
	case types.Int8:
		bits, signed = 8, true
	case types.Int16:
		bits, signed = 16, true
	case types.Int32:
		bits, signed = 32, true
	case types.Int64:
		bits, signed = 64, true
	case types.Int, types.UntypedInt, types.UntypedRune:
		bits, signed = e.IntBits, true
	case types.Uint8:
		bits = 8
	case types.Uint16:
		bits = 16
	case types.Uint32:
		bits = 32
	case types.Uint64:
		bits = 64
	case types.Uint, types.Uintptr:
		bits = e.IntBits
	default:
		return irange{}, false
	}
	r := irange{signed: signed, bits: bits}
	if signed {
		if bits < 64 {
			r.lo, r.hi, r.hasLo, r.hasHi = -(int64(1) << (bits - 1)), (int64(1)<<(bits-1))-1, true, true
		}
	} else {
		r.lo, r.hasLo = 0, true
		if bits < 64 {
			r.hi, r.hasHi = (int64(1)<<bits)-1, true
		}
	}
	return r, true
}

func (r irange) contains(o irange) bool {
	// every value of o is a value of r
	if r.bits == 64 && r.signed {
		return o.signed || o.bits < 64
	}
	if r.bits == 64 && !r.signed {
		return !o.signed
	}
	if !o.hasLo || !o.hasHi {
		return false
	}
	return r.lo <= o.lo && o.hi <= r.hi
}

func isIntegerType(t types.Type) bool {
	if t == nil {
		return false
	}
	b, ok := t.Underlying().(*types.Basic)
	return ok && b.Info()&types.IsInteger != 0
}

func constInt(info *types.Info, e ast.Expr) (int64, bool) {
	tv, ok := info.Types[e]
	if !ok || tv.Value == nil {
		return 0, false
	}
	v := constant.ToInt(tv.Value)
	if v.Kind() != constant.Int {
		return 0, false
	}
	i, exact := constant.Int64Val(v)
	if !exact || tooBig(i) {
		return 0, false
	}
	return i, true
}

// ---- atoms ----

func (c *FnCtx) atomFor(prefix string, p *Path) Atom {
	a := Atom(prefix + p.key())
	if c.E.paths[a] == nil {
		c.E.paths[a] = p
	}
	return a
}

func (e *Engine) opaque(desc string) Atom {
	e.opaqueN++
	if len(desc) > 40 {
		desc = desc[:40]
	}
	return Atom(fmt.Sprintf("O:%d:%s", e.opaqueN, desc))
}

func (c *FnCtx) rangeFacts(s *sink, a Atom, t types.Type) {
	r, ok := c.E.intRange(t)
	if !ok {
		return
	}
	if r.hasLo {
		s.always("type range", GE(Var(a), Const(r.lo)))
	}
	if r.hasHi {
		s.always("type range", LE(Var(a), Const(r.hi)))
	}
}

func (c *FnCtx) opaqueOf(e ast.Expr, s *sink) Lin {
	a := c.E.opaque(types.ExprString(e))
	if t := c.Info.TypeOf(e); t != nil {
		c.rangeFacts(s, a, t)
	}
	return Var(a)
}

// lenAtom returns the term for len(x) (or cap when isCap) of expression x, if it can be named.
func (c *FnCtx) lenOfExpr(x ast.Expr, isCap bool, s *sink) (Lin, bool) {
	x = ast.Unparen(x)
	t := c.Info.TypeOf(x)
	if t == nil {
		return Lin{}, false
	}
	if tv, ok := c.Info.Types[x]; ok && tv.Value != nil && tv.Value.Kind() == constant.String {
		return Const(int64(len(constant.StringVal(tv.Value)))), true
	}
	ut := t.Underlying()
	if p, ok := ut.(*types.Pointer); ok {
		if arr, ok := p.Elem().Underlying().(*types.Array); ok {
			return Const(arr.Len()), true
		}
	}
	if arr, ok := ut.(*types.Array); ok {
		return Const(arr.Len()), true
	}
	switch ut.(type) {
	case *types.Slice:
	case *types.Basic:
		if ut.(*types.Basic).Info()&types.IsString == 0 {
			return Lin{}, false
		}
		isCap = false
	default:
		return Lin{}, false
	}
	if p := c.pathOf(x); p != nil && c.usablePath(p) {
		la := c.atomFor("L:", p)
		s.always("len>=0", GE(Var(la), Const(0)))
		if !isCap {
			return Var(la), true
		}
		ca := c.atomFor("C:", p)
		s.always("cap>=len", GE(Var(ca), Var(la)))
		return Var(ca), true
	}
	// an expression with index steps (xs[i].f, split[1]): named by its text
	if p := c.exprPathOf(x); p != nil && c.usablePath(p) {
		la := c.atomFor("L:", p)
		s.always("len>=0", GE(Var(la), Const(0)))
		if !isCap {
			return Var(la), true
		}
		ca := c.atomFor("C:", p)
		s.always("cap>=len", GE(Var(ca), Var(la)))
		return Var(ca), true
	}
	// len(x[a:b]) = b-a (the slice expression itself would have panicked otherwise)
	if se, ok := x.(*ast.SliceExpr); ok && !isCap {
		lo := Const(0)
		if se.Low != nil {
			l, ok := c.linOf(se.Low, s)
			if !ok {
				return c.freshLen(x, s), true
			}
			lo = l
		}
		var hi Lin
		if se.High != nil {
			h, ok := c.linOf(se.High, s)
			if !ok {
				return c.freshLen(x, s), true
			}
			hi = h
		} else {
			h, ok := c.lenOfExpr(se.X, false, s)
			if !ok {
				return c.freshLen(x, s), true
			}
			hi = h
		}
		return hi.Minus(lo), true
	}
	// slice literal without keys: its element count
	if cl, ok := x.(*ast.CompositeLit); ok && !isCap {
		keyed := false
		for _, el := range cl.Elts {
			if _, ok := el.(*ast.KeyValueExpr); ok {
				keyed = true
			}
		}
		if !keyed {
			return Const(int64(len(cl.Elts))), true
		}
	}
	// conversions between string and []byte keep the byte length
	if call, ok := x.(*ast.CallExpr); ok && len(call.Args) == 1 {
		if tv, ok := c.Info.Types[call.Fun]; ok && tv.IsType() {
			at := c.Info.TypeOf(call.Args[0])
			if at != nil && isBytesOrString(at) && isBytesOrString(t) {
				return c.lenOfExpr(call.Args[0], false, s)
			}
		}
	}
	return c.freshLen(x, s), true
}

func isBytesOrString(t types.Type) bool {
	switch u := t.Underlying().(type) {
	case *types.Basic:
		return u.Info()&types.IsString != 0
	case *types.Slice:
		b, ok := u.Elem().Underlying().(*types.Basic)
		return ok && b.Kind() == types.Uint8
	}
	return false
}

func (c *FnCtx) freshLen(x ast.Expr, s *sink) Lin {
	a := c.E.opaque("len(" + types.ExprString(x) + ")")
	s.always("len>=0", GE(Var(a), Const(0)))
	return Var(a)
}

// linOf linearises an integer expression evaluated at the sink's point.
func (c *FnCtx) linOf(e ast.Expr, s *sink) (Lin, bool) {
	e = ast.Unparen(e)
	t := c.Info.TypeOf(e)
	if !isIntegerType(t) {
		return Lin{}, false
	}
	if k, ok := constInt(c.Info, e); ok {
		return Const(k), true
	}
	switch x := e.(type) {
	case *ast.Ident, *ast.SelectorExpr:
		if p := c.pathOf(e); p != nil && c.usablePath(p) {
			a := c.atomFor("V:", p)
			c.rangeFacts(s, a, t)
			if c.E.nonNegPath(p) {
				s.always("never assigned a negative value", GE(Var(a), Const(0)))
			}
			return Var(a), true
		}
		return c.opaqueOf(e, s), true
	case *ast.CallExpr:
		return c.linOfCall(x, s), true
	case *ast.UnaryExpr:
		switch x.Op {
		case token.ADD:
			return c.linOf(x.X, s)
		case token.SUB:
			if r, ok := c.E.intRange(t); ok && r.signed && r.bits == 64 && c.E.tameExpr(c, x.X) {
				if l, ok := c.linOf(x.X, s); ok {
					return l.Scale(-1), true
				}
			}
		}
		return c.opaqueOf(e, s), true
	case *ast.BinaryExpr:
		return c.linOfBinary(x, s), true
	}
	return c.opaqueOf(e, s), true
}

func (c *FnCtx) linOfCall(call *ast.CallExpr, s *sink) Lin {
	// conversion
	if tv, ok := c.Info.Types[call.Fun]; ok && tv.IsType() && len(call.Args) == 1 {
		dst, okd := c.E.intRange(tv.Type)
		src, oks := c.E.intRange(c.Info.TypeOf(call.Args[0]))
		if okd && oks {
			inner, ok := c.linOf(call.Args[0], s)
			if ok {
				if dst.contains(src) {
					return inner
				}
				// value-preserving only when the operand lies in the target range
				o := c.opaqueOf(call, s)
				if dst.bits < 64 {
					d := Disj{Alt(EQ(o, inner)), Alt{LE(inner, Const(dst.lo-1))}, Alt{GE(inner, Const(dst.hi+1))}}
					s.disj(d)
				} else if !dst.signed {
					// to uint64/uint(64): negative operands wrap
					s.disj(Disj{Alt(EQ(o, inner)), Alt{LE(inner, Const(-1))}})
				} else if c.E.tameExpr(c, call.Args[0]) {
					// uint64 -> int64 of a tame (small) value
					s.disj(Disj{Alt(EQ(o, inner))})
				}
				return o
			}
		}
		return c.opaqueOf(call, s)
	}
	if id, ok := ast.Unparen(call.Fun).(*ast.Ident); ok {
		if b, ok := c.Info.Uses[id].(*types.Builtin); ok {
			switch b.Name() {
			case "len", "cap":
				if len(call.Args) == 1 {
					if l, ok := c.lenOfExpr(call.Args[0], b.Name() == "cap", s); ok {
						return l
					}
					a := c.E.opaque(types.ExprString(call))
					s.always("len>=0", GE(Var(a), Const(0)))
					return Var(a)
				}
			case "min", "max":
				o := c.opaqueOf(call, s)
				var d Disj
				okAll := true
				for _, arg := range call.Args {
					l, ok := c.linOf(arg, s)
					if !ok {
						okAll = false
						break
					}
					if b.Name() == "min" {
						s.fact("min", LE(o, l))
					} else {
						s.fact("max", GE(o, l))
					}
					d = append(d, Alt(EQ(o, l)))
				}
				if okAll && len(d) > 0 {
					s.disj(d)
				}
				return o
			case "copy":
				o := c.opaqueOf(call, s)
				s.always("copy>=0", GE(o, Const(0)))
				for _, arg := range call.Args {
					if l, ok := c.lenOfExpr(arg, false, s); ok {
						s.fact("copy<=len", LE(o, l))
					}
				}
				return o
			}
		}
	}
	return c.opaqueOf(call, s)
}

func (c *FnCtx) linOfBinary(x *ast.BinaryExpr, s *sink) Lin {
	t := c.Info.TypeOf(x)
	r, _ := c.E.intRange(t)
	a, oka := c.linOf(x.X, s)
	var b Lin
	okb := false
	kb, bConst := constInt(c.Info, x.Y)
	ka, aConst := constInt(c.Info, x.X)
	if x.Op != token.SHL && x.Op != token.SHR {
		b, okb = c.linOf(x.Y, s)
	}
	wrap := func(res Lin, tame bool) Lin {
		// res is the mathematical result; decide whether it is the machine result
		if r.signed && r.bits == 64 {
			if tame {
				return res
			}
			return c.opaqueOf(x, s)
		}
		o := c.opaqueOf(x, s)
		d := Disj{Alt(EQ(o, res))}
		if r.hasLo {
			d = append(d, Alt{LE(res, Const(r.lo-1))})
		}
		if r.hasHi {
			d = append(d, Alt{GE(res, Const(r.hi+1))})
		} else if !tame {
			return o // overflow of a 64-bit unsigned cannot be excluded
		}
		s.disj(d)
		return o
	}
	tame := c.E.tameExpr(c, x.X) && (x.Op == token.SHL || x.Op == token.SHR || c.E.tameExpr(c, x.Y))
	switch x.Op {
	case token.ADD:
		if oka && okb {
			return wrap(a.Plus(b), tame)
		}
	case token.SUB:
		if oka && okb {
			return wrap(a.Minus(b), tame)
		}
	case token.MUL:
		if oka && okb {
			if bConst && abs64(kb) <= 1<<16 {
				if m, ok := (Lin{}).AddScaled(a, kb); ok {
					return wrap(m, tame && abs64(kb) <= 256)
				}
			}
			if aConst && abs64(ka) <= 1<<16 {
				if m, ok := (Lin{}).AddScaled(b, ka); ok {
					return wrap(m, tame && abs64(ka) <= 256)
				}
			}
		}
	case token.SHL:
		if ks, ok := constInt(c.Info, x.Y); ok && oka && ks >= 0 && ks <= 16 {
			if m, ok := (Lin{}).AddScaled(a, int64(1)<<ks); ok {
				return wrap(m, tame && ks <= 8)
			}
		}
	case token.QUO, token.SHR:
		div := kb
		if x.Op == token.SHR {
			ks, ok := constInt(c.Info, x.Y)
			if !ok || ks < 0 || ks > 40 {
				break
			}
			div, bConst = int64(1)<<ks, true
		}
		if oka && bConst && div > 0 && div <= 1<<40 {
			q := c.opaqueOf(x, s)
			cq := q.Scale(div)
			pos := Alt{GE(a, Const(0)), LE(cq, a), LE(a.Minus(cq), Const(div-1))}
			if r.hasLo && r.lo == 0 {
				s.fact("unsigned quotient", pos...)
			} else if x.Op == token.SHR {
				// arithmetic shift rounds towards -inf: same inequalities for every sign
				s.fact("shift", LE(cq, a), LE(a.Minus(cq), Const(div-1)))
			} else {
				neg := Alt{LE(a, Const(-1)), GE(cq, a), LE(cq.Minus(a), Const(div-1))}
				s.disj(Disj{pos, neg})
			}
			return q
		}
	case token.REM:
		if oka && okb {
			rm := c.opaqueOf(x, s)
			if bConst && kb > 0 {
				if r.hasLo && r.lo == 0 {
					s.fact("unsigned remainder", GE(rm, Const(0)), LE(rm, Const(kb-1)), LE(rm, a))
				} else {
					s.disj(Disj{Alt{GE(a, Const(0)), GE(rm, Const(0)), LE(rm, Const(kb-1)), LE(rm, a)},
						Alt{LE(a, Const(-1)), LE(rm, Const(0)), GE(rm, Const(-(kb - 1)))}})
				}
			} else if !bConst {
				s.disj(Disj{Alt{GE(a, Const(0)), GE(b, Const(1)), GE(rm, Const(0)), LE(rm, b.PlusK(-1))},
					Alt{LE(a, Const(-1))}, Alt{LE(b, Const(0))}})
			}
			return rm
		}
	case token.AND:
		o := c.opaqueOf(x, s)
		if bConst && kb >= 0 {
			s.always("mask", GE(o, Const(0)), LE(o, Const(kb)))
		}
		if aConst && ka >= 0 {
			s.always("mask", GE(o, Const(0)), LE(o, Const(ka)))
		}
		return o
	}
	return c.opaqueOf(x, s)
}

// ---- conditions ----

func negOp(op token.Token) token.Token {
	switch op {
	case token.LSS:
		return token.GEQ
	case token.LEQ:
		return token.GTR
	case token.GTR:
		return token.LEQ
	case token.GEQ:
		return token.LSS
	case token.EQL:
		return token.NEQ
	case token.NEQ:
		return token.EQL
	}
	return token.ILLEGAL
}

func cmpFacts(op token.Token, l, r Lin, s *sink, note string) {
	switch op {
	case token.LSS:
		s.fact(note, GE(r.Minus(l), Const(1)))
	case token.LEQ:
		s.fact(note, GE(r, l))
	case token.GTR:
		s.fact(note, GE(l.Minus(r), Const(1)))
	case token.GEQ:
		s.fact(note, GE(l, r))
	case token.EQL:
		s.fact(note, EQ(l, r)...)
	case token.NEQ:
		// x != k where k is the least value x can take: x >= k+1
		d := l.Minus(r)
		if len(d.T) == 1 {
			for a, k := range d.T {
				if lb, ok := atomFloor(a); ok && (k == 1 || k == -1) {
					// d = k*a + K != 0  <=>  a != -K/k
					excluded := -d.K * k
					if excluded == lb {
						s.fact(note, GE(Var(a), Const(lb+1)))
						return
					}
				}
			}
		}
		s.disj(Disj{Alt{GE(r.Minus(l), Const(1))}, Alt{GE(l.Minus(r), Const(1))}})
	}
}

// atomFloor returns the least value an atom can take when that is known from its kind alone.
func atomFloor(a Atom) (int64, bool) {
	s := string(a)
	if len(s) > 2 && (s[:2] == "L:" || s[:2] == "C:") {
		return 0, true
	}
	if len(s) > 2 && s[:2] == "O:" {
		if i := strings.Index(s[2:], ":"); i >= 0 && strings.HasPrefix(s[2+i+1:], "len(") {
			return 0, true
		}
	}
	return 0, false
}

// condFacts adds the facts implied by cond evaluating to truth at the sink's point.
func (c *FnCtx) condFacts(cond ast.Expr, truth bool, s *sink, depth int) {
	cond = ast.Unparen(cond)
	switch x := cond.(type) {
	case *ast.UnaryExpr:
		if x.Op == token.NOT {
			c.condFacts(x.X, !truth, s, depth)
		}
		return
	case *ast.BinaryExpr:
		switch x.Op {
		case token.LAND:
			if truth {
				c.condFacts(x.X, true, s, depth)
				c.condFacts(x.Y, true, s, depth)
			}
			return
		case token.LOR:
			if !truth {
				c.condFacts(x.X, false, s, depth)
				c.condFacts(x.Y, false, s, depth)
			}
			return
		case token.LSS, token.LEQ, token.GTR, token.GEQ, token.EQL, token.NEQ:
			op := x.Op
			if !truth {
				op = negOp(op)
			}
			note := "guard " + types.ExprString(cond)
			if !truth {
				note = "guard !(" + types.ExprString(cond) + ")"
			}
			tx, ty := c.Info.TypeOf(x.X), c.Info.TypeOf(x.Y)
			if isIntegerType(tx) && isIntegerType(ty) {
				l, ok1 := c.linOf(x.X, s)
				r, ok2 := c.linOf(x.Y, s)
				if ok1 && ok2 {
					cmpFacts(op, l, r, s, note)
				}
				return
			}
			// string / nil comparisons speak about lengths
			if op == token.EQL || op == token.NEQ {
				c.lenCmpFacts(x.X, x.Y, op, s, note)
				c.nilCmpFacts(x.X, x.Y, op, s, depth)
				c.nilCmpFacts(x.Y, x.X, op, s, depth)
			}
			return
		}
	case *ast.Ident:
		// boolean variable: use its unique definition
		if v := core.VarOf(c.Info, x); v != nil && depth < 3 {
			c.boolVarFacts(v, truth, s, depth)
		}
		return
	case *ast.CallExpr:
		c.E.callCondFacts(c, x, truth, s)
		return
	}
}

func (c *FnCtx) lenCmpFacts(a, b ast.Expr, op token.Token, s *sink, note string) {
	ta := c.Info.TypeOf(a)
	if ta == nil {
		return
	}
	if bt, ok := ta.Underlying().(*types.Basic); !ok || bt.Info()&types.IsString == 0 {
		return
	}
	la, ok1 := c.lenOfExpr(a, false, s)
	lb, ok2 := c.lenOfExpr(b, false, s)
	if !ok1 || !ok2 {
		return
	}
	if op == token.EQL {
		s.fact(note, EQ(la, lb)...)
		return
	}
	// s != "" means len(s) >= 1
	if lb.IsConst() && lb.K == 0 {
		s.fact(note, GE(la, Const(1)))
	}
	if la.IsConst() && la.K == 0 {
		s.fact(note, GE(lb, Const(1)))
	}
}

func (c *FnCtx) nilCmpFacts(a, b ast.Expr, op token.Token, s *sink, depth int) {
	if !core.IsNilIdent(c.Info, b) {
		return
	}
	t := c.Info.TypeOf(a)
	if t == nil {
		return
	}
	if _, isSlice := t.Underlying().(*types.Slice); isSlice && op == token.EQL {
		if l, ok := c.lenOfExpr(a, false, s); ok {
			s.fact("nil slice", EQ(l, Const(0))...)
		}
		return
	}
	// err == nil after `err := f(...)`: the callee's post-condition on its nil-error returns
	if v := core.VarOf(c.Info, a); v != nil && isErrorType(v.Type()) && op == token.EQL && depth < 3 {
		c.E.errNilFacts(c, v, s)
	}
}

func isErrorType(t types.Type) bool {
	return types.Identical(t, types.Universe.Lookup("error").Type())
}

// boolVarFacts derives facts from `ok` being true/false when ok has a single reaching definition.
func (c *FnCtx) boolVarFacts(v *types.Var, truth bool, s *sink, depth int) {
	if c.wild[v] || !c.local[v] {
		return
	}
	at := s.At
	useNode, ok := pointNode(c, at)
	if !ok {
		return
	}
	d, rhs, call, idx := c.uniqueDef(v, useNode)
	if d < 0 {
		return
	}
	sub := &sink{At: Point{Kind: PtAfter, Node: d}}
	if rhs != nil {
		c.condFacts(rhs, truth, sub, depth+1)
	} else if call != nil {
		c.E.callResultBoolFacts(c, call, idx, truth, d, sub)
	}
	s.Facts = append(s.Facts, sub.Facts...)
	s.Disjs = append(s.Disjs, sub.Disjs...)
}

func pointNode(c *FnCtx, p Point) (int, bool) {
	switch p.Kind {
	case PtEdge:
		return p.Edge.From, true
	case PtAfter, PtBefore:
		return p.Node, true
	}
	return 0, false
}

// uniqueDef finds the single definition of v that reaches node n: the definition node dominates n
// and no other definition lies between. It returns the node, and either the 1:1 RHS expression or
// the call with the result index (tuple assignment).
func (c *FnCtx) uniqueDef(v *types.Var, n int) (node int, rhs ast.Expr, call *ast.CallExpr, idx int) {
	best := -1
	for _, d := range c.defs[v] {
		if d == n || !c.dominatesNode(d, n) {
			continue
		}
		// no other def between d and n
		clean := true
		reg := c.region(Point{Kind: PtAfter, Node: d}, n)
		for _, o := range c.defs[v] {
			if o != d && reg[o] {
				clean = false
			}
		}
		if reg[d] {
			clean = false
		}
		if clean {
			best = d
		}
	}
	if best < 0 {
		return -1, nil, nil, 0
	}
	rhs, call, idx = c.defRHS(v, best)
	return best, rhs, call, idx
}

// defRHS returns what node d assigns to v.
func (c *FnCtx) defRHS(v *types.Var, d int) (rhs ast.Expr, call *ast.CallExpr, idx int) {
	nd := c.G.Nodes[d]
	if nd.Ast == nil {
		return nil, nil, 0
	}
	var outR ast.Expr
	var outC *ast.CallExpr
	outI := 0
	core.InspectShallow(nd.Ast, func(x ast.Node) bool {
		switch st := x.(type) {
		case *ast.AssignStmt:
			if st.Tok != token.ASSIGN && st.Tok != token.DEFINE {
				return true
			}
			for i, l := range st.Lhs {
				if core.VarOf(c.Info, l) != v {
					continue
				}
				if len(st.Rhs) == len(st.Lhs) {
					outR = st.Rhs[i]
				} else if len(st.Rhs) == 1 {
					if ce, ok := ast.Unparen(st.Rhs[0]).(*ast.CallExpr); ok {
						outC, outI = ce, i
					}
				}
			}
		case *ast.ValueSpec:
			for i, nm := range st.Names {
				if c.Info.Defs[nm] != v {
					continue
				}
				if len(st.Values) == len(st.Names) {
					outR = st.Values[i]
				} else if len(st.Values) == 1 {
					if ce, ok := ast.Unparen(st.Values[0]).(*ast.CallExpr); ok {
						outC, outI = ce, i
					}
				}
			}
		}
		return true
	})
	return outR, outC, outI
}

// ---- facts at a node ----

// candidateFacts returns every fact (with its point) that may be relevant at node n,
// before kill filtering: dominating guards, range-loop bounds, dominating definitions, entry facts.
func (c *FnCtx) candidateFacts(n int) ([]PFact, []PDisj) {
	if m := c.candMemo[n]; m != nil {
		return m.facts, m.disjs
	}
	f, d := c.candidateFacts0(n)
	if !c.inProgress[n] {
		c.candMemo[n] = &candSet{facts: f, disjs: d}
	}
	return f, d
}

type candSet struct {
	facts []PFact
	disjs []PDisj
}

func (c *FnCtx) candidateFacts0(n int) ([]PFact, []PDisj) {
	var facts []PFact
	var disjs []PDisj
	add := func(s *sink) {
		facts = append(facts, s.Facts...)
		disjs = append(disjs, s.Disjs...)
	}
	g := c.G
	for _, ref := range c.dominatingEdges(n) {
		e := g.Nodes[ref.From].Succs[ref.Idx]
		s := &sink{At: Point{Kind: PtEdge, Edge: ref}}
		switch {
		case e.Range != nil:
			if e.Branch == 1 {
				c.rangeFactsFor(e.Range, ref, s, &facts, &disjs)
			}
		case e.Cond != nil && e.Tag == nil:
			c.condFacts(e.Cond, e.Branch == 1, s, 0)
		case e.Cond != nil && e.Tag != nil:
			if isIntegerType(c.Info.TypeOf(e.Tag)) {
				l, ok1 := c.linOf(e.Tag, s)
				r, ok2 := c.linOf(e.Cond, s)
				if ok1 && ok2 {
					op := token.EQL
					if e.Branch != 1 {
						op = token.NEQ
					}
					cmpFacts(op, l, r, s, "switch case "+types.ExprString(e.Tag)+" vs "+types.ExprString(e.Cond))
				}
			} else if e.Branch == 1 {
				c.lenCmpFacts(e.Tag, e.Cond, token.EQL, s, "switch case")
			}
		}
		add(s)
	}
	// definitions that dominate n (variables and field paths)
	var keys []string
	for k := range c.pathDefs {
		keys = append(keys, k)
	}
	sort.Strings(keys)
	for _, k := range keys {
		p := c.pathInfo[k]
		if !c.usablePath(p) {
			continue
		}
		for _, d := range c.pathDefs[k] {
			if d == n || !c.dominatesNode(d, n) {
				continue
			}
			s := &sink{At: Point{Kind: PtAfter, Node: d}}
			c.pathDefFacts(p, d, s, &facts, &disjs)
			add(s)
		}
	}
	// earlier accesses that succeeded: x[k] evaluated in a dominating node means 0 <= k < len(x) held there
	for _, m := range c.accessNodes {
		if m == n || !c.dominatesNode(m, n) {
			continue
		}
		s := &sink{At: Point{Kind: PtBefore, Node: m}}
		c.accessFacts(m, s)
		add(s)
	}
	// entry facts established by every caller
	ef, ed := c.E.entryFacts(c)
	facts = append(facts, ef...)
	disjs = append(disjs, ed...)
	return facts, disjs
}

// shortCircuitFacts: go/cfg keeps `a && b` / `a || b` as one node, so when `use` sits in the right operand
// the left operand is known to be true (&&) or false (||) at that moment; likewise every index/slice
// expression of the node that is unconditionally evaluated before `use` has succeeded.
func (c *FnCtx) shortCircuitFacts(n int, use ast.Node, s *sink) {
	root := c.G.Nodes[n].Ast
	if root == nil {
		return
	}
	var stack []ast.Node
	var path []ast.Node
	ast.Inspect(root, func(x ast.Node) bool {
		if x == nil {
			stack = stack[:len(stack)-1]
			return false
		}
		if path != nil {
			return false
		}
		stack = append(stack, x)
		if x == use {
			path = append([]ast.Node{}, stack...)
		}
		return true
	})
	for i := 0; i+1 < len(path); i++ {
		be, ok := path[i].(*ast.BinaryExpr)
		if !ok || (be.Op != token.LAND && be.Op != token.LOR) {
			continue
		}
		if path[i+1] == ast.Node(be.Y) {
			c.condFacts(be.X, be.Op == token.LAND, s, 0)
			// accesses in the left operand that are themselves unconditional there
			c.accessFactsIn(be.X, s)
		}
	}
}

// conditionalIn reports the sub-expressions of root that are evaluated only conditionally
// (right operands of && and ||).
func conditionalParts(root ast.Node) map[ast.Node]bool {
	out := map[ast.Node]bool{}
	ast.Inspect(root, func(x ast.Node) bool {
		if be, ok := x.(*ast.BinaryExpr); ok && (be.Op == token.LAND || be.Op == token.LOR) {
			ast.Inspect(be.Y, func(y ast.Node) bool {
				if y != nil {
					out[y] = true
				}
				return true
			})
		}
		return true
	})
	return out
}

// accessFacts: every index/slice expression of node m was evaluated without panicking.
func (c *FnCtx) accessFacts(m int, s *sink) {
	nd := c.G.Nodes[m]
	if nd.Ast == nil {
		return
	}
	c.accessFactsIn(nd.Ast, s)
}

func (c *FnCtx) accessFactsIn(root ast.Node, s *sink) {
	cond := conditionalParts(root)
	core.InspectShallow(root, func(x ast.Node) bool {
		if cond[x] {
			return false
		}
		switch e := x.(type) {
		case *ast.IndexExpr:
			if !hasBoundsCheck(c.Info, e) {
				return true
			}
			ln, ok1 := c.lenOfExpr(e.X, false, s)
			ix, ok2 := c.linOf(e.Index, s)
			if ok1 && ok2 && !strings.HasPrefix(firstAtom(ln), "O:") {
				s.fact("earlier access "+types.ExprString(e), GE(ix, Const(0)), LE(ix, ln.PlusK(-1)))
			}
		case *ast.SliceExpr:
			t := c.Info.TypeOf(e.X)
			if t == nil {
				return true
			}
			_, isSlice := t.Underlying().(*types.Slice)
			bound, ok := c.lenOfExpr(e.X, isSlice, s)
			if !ok || strings.HasPrefix(firstAtom(bound), "O:") {
				return true
			}
			if e.High != nil && e.Max == nil {
				if hi, ok := c.linOf(e.High, s); ok {
					s.fact("earlier slice "+types.ExprString(e), LE(hi, bound))
				}
			}
			if e.Low != nil && e.High == nil {
				if ln, ok := c.lenOfExpr(e.X, false, s); ok {
					if lo, ok := c.linOf(e.Low, s); ok {
						s.fact("earlier slice "+types.ExprString(e), LE(lo, ln), GE(lo, Const(0)))
					}
				}
			}
		}
		return true
	})
}

// rangeFactsFor: inside the body of `for k := range X`, 0 <= k < len(X as evaluated at loop entry).
func (c *FnCtx) rangeFactsFor(rs *ast.RangeStmt, iter core.EdgeRef, s *sink, facts *[]PFact, disjs *[]PDisj) {
	if rs.Key == nil {
		return
	}
	kv := core.VarOf(c.Info, rs.Key)
	if kv == nil || c.wild[kv] {
		return
	}
	kp := c.pathOf(rs.Key)
	if kp == nil {
		return
	}
	xn, ok := c.nodeOf[ast.Node(rs.X)]
	if !ok {
		return
	}
	t := c.Info.TypeOf(rs.X)
	if t == nil {
		return
	}
	pre := &sink{At: Point{Kind: PtAfter, Node: xn}}
	var bound Lin
	switch u := t.Underlying().(type) {
	case *types.Slice, *types.Array:
		b, ok := c.lenOfExpr(rs.X, false, pre)
		if !ok {
			return
		}
		bound = b
	case *types.Pointer:
		if _, isArr := u.Elem().Underlying().(*types.Array); !isArr {
			return
		}
		b, ok := c.lenOfExpr(rs.X, false, pre)
		if !ok {
			return
		}
		bound = b
	case *types.Basic:
		if u.Info()&types.IsString != 0 {
			b, ok := c.lenOfExpr(rs.X, false, pre)
			if !ok {
				return
			}
			bound = b
		} else if u.Info()&types.IsInteger != 0 {
			b, ok := c.linOf(rs.X, pre)
			if !ok {
				return
			}
			bound = b
		} else {
			return
		}
	default:
		return // maps, channels, functions: no bound on the key
	}
	ka := c.atomFor("V:", kp)
	ghost := Atom(fmt.Sprintf("G:rangelen@%d", xn))
	// ghost == bound at loop entry (valid while the operand is unchanged since then)
	for _, l := range EQ(Var(ghost), bound) {
		pre.Facts = append(pre.Facts, PFact{L: l, At: pre.At, Note: "range operand length at loop entry"})
	}
	*facts = append(*facts, pre.Facts...)
	*disjs = append(*disjs, pre.Disjs...)
	s.fact("range key", GE(Var(ka), Const(0)), LE(Var(ka), Var(ghost).PlusK(-1)))
}

func mentionsVar(info *types.Info, e ast.Expr, v *types.Var) bool {
	found := false
	ast.Inspect(e, func(x ast.Node) bool {
		if id, ok := x.(*ast.Ident); ok && info.Uses[id] == types.Object(v) {
			found = true
		}
		return !found
	})
	return found
}

// usableAt reports whether a fact established at `at` still holds when node n starts executing.
// use, when non-nil, is the expression inside n being discharged: calls of n evaluated before it count.
func (c *FnCtx) usableAt(l Lin, at Point, n int, use ast.Node) bool {
	for a := range l.T {
		if c.killed(a, at, n) {
			return false
		}
		if use != nil {
			if info := c.E.paths[a]; info != nil && info.Ptr {
				for _, call := range c.calls[n] {
					if call.Pos() <= use.Pos() && use.End() <= call.End() {
						continue // the call encloses the use: it runs afterwards
					}
					// the order of a call relative to the indexing of an operand elsewhere in the same
					// statement is not specified by the language: any other call of the node counts
					if c.E.callMayWrite(c, call, info) {
						return false
					}
				}
			}
		}
	}
	return true
}

// FactsFor assembles the fact set valid when the expression `use` inside node n is evaluated.
func (c *FnCtx) FactsFor(n int, use ast.Node, goalSide *sink) *FactSet {
	pf, pd := c.candidateFacts(n)
	if use != nil {
		sc := &sink{At: Point{Kind: PtBefore, Node: n}}
		c.shortCircuitFacts(n, use, sc)
		pf = append(append([]PFact{}, pf...), sc.Facts...)
		pd = append(append([]PDisj{}, pd...), sc.Disjs...)
	}
	if goalSide != nil {
		pf = append(pf, goalSide.Facts...)
		pd = append(pd, goalSide.Disjs...)
	}
	fs := &FactSet{}
	for _, f := range pf {
		if c.usableAt(f.L, f.At, n, use) {
			fs.Add(f.Note, f.L)
		}
	}
	for _, d := range pd {
		ok := true
		for _, alt := range d.D {
			for _, l := range alt {
				if !c.usableAt(l, d.At, n, use) {
					ok = false
				}
			}
		}
		if ok {
			fs.AddDisj("", d.D)
		}
	}
	return fs
}
