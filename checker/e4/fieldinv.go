package e4

import (
	"go/ast"
	"go/token"
	"go/types"
	"sort"
	"strings"

	"verif/checker/core"
)

// FieldInvariant tries to establish a goal of the form k·x.f + K >= 0 (x.f an unexported integer
// field, or the length of an unexported slice/string field, of a module struct T) as an invariant of
// every T object built by the module:
//
//  1. every assignment to f anywhere in the module stores a value satisfying the goal
//     (proved from the facts at the assignment);
//  2. every composite literal of T either sets f to such a value, or omits it (zero value) in a
//     constructor that assigns f — on every path — before it returns the object, and that does
//     not reach the obligation's function through a method call on the half-built object;
//  3. T objects are not created in any other way inside the module (new(T), var x T, make([]T, n),
//     fields/elements of type T by value), and f's address is never taken.
//
// Objects a *user* of an exported type builds without the package's constructors are outside the
// claim (stated in the evidence). It returns a description when it succeeds.
func (e *Engine) FieldInvariant(c *FnCtx, goal Lin) (bool, string) {
	if len(goal.T) != 1 {
		return false, ""
	}
	var atom Atom
	var coef int64
	for a, k := range goal.T {
		atom, coef = a, k
	}
	info := e.paths[atom]
	if info == nil || info.Text != "" || len(info.Fields) == 0 {
		return false, ""
	}
	pre := string(atom)[:2]
	if pre != "V:" && pre != "L:" {
		return false, ""
	}
	f := info.Fields[len(info.Fields)-1]
	if f.Exported() || f.Pkg() == nil || !strings.HasPrefix(f.Pkg().Path(), core.ModPath) {
		return false, ""
	}
	key := pre + varID(f) + "|" + goal.String()
	if e.fieldInvMemo == nil {
		e.fieldInvMemo = map[string]string{}
	}
	if r, ok := e.fieldInvMemo[key]; ok {
		return r != "", r
	}
	e.fieldInvMemo[key] = ""
	owner := e.structOwning(f)
	if owner == nil {
		return false, ""
	}
	holds := func(cc *FnCtx, node int, use ast.Node, val Lin, side *sink) bool {
		sub, ok := Const(goal.K).AddScaled(val, coef)
		if !ok {
			return false
		}
		fs := cc.FactsFor(node, use, side)
		e.ProveCalls++
		return fs.Proves(sub)
	}
	valueOf := func(cc *FnCtx, x ast.Expr, side *sink) (Lin, bool) {
		if pre == "V:" {
			return cc.linOf(x, side)
		}
		if core.IsNilIdent(cc.Info, x) {
			return Const(0), true
		}
		return cc.lenOfExpr(x, false, side)
	}
	zeroOK := goal.K >= 0 // the zero value (0 / empty) satisfies the goal
	var writers []string
	obligFn := c.Owner.Obj

	for _, fi := range e.P.AllFuncs() {
		if fi.Decl.Body == nil || fi.Pkg.Types != f.Pkg() {
			// an unexported field can only be named inside its own package
			continue
		}
		tinfo := fi.Pkg.TypesInfo
		bad := false
		var lits []*ast.CompositeLit
		hasWrite := false
		ast.Inspect(fi.Decl.Body, func(x ast.Node) bool {
			if bad {
				return false
			}
			switch s := x.(type) {
			case *ast.UnaryExpr:
				if s.Op == token.AND && core.FieldOf(tinfo, s.X) == f {
					bad = true
				}
			case *ast.IncDecStmt:
				if core.FieldOf(tinfo, s.X) == f {
					bad = true
				}
			case *ast.AssignStmt:
				for i, l := range s.Lhs {
					if core.FieldOf(tinfo, l) != f {
						continue
					}
					hasWrite = true
					if (s.Tok != token.ASSIGN && s.Tok != token.DEFINE) || len(s.Rhs) != len(s.Lhs) {
						bad = true
						continue
					}
					cc := e.CtxEnclosing(fi, s.Pos())
					if cc == nil {
						bad = true
						continue
					}
					node, ok := cc.nodeOf[ast.Node(s)]
					if !ok {
						continue // dead code
					}
					side := &sink{At: Point{Kind: PtBefore, Node: node}}
					val, ok := valueOf(cc, s.Rhs[i], side)
					if !ok || !holds(cc, node, s.Rhs[i], val, side) {
						bad = true
						continue
					}
					writers = append(writers, cc.Name)
				}
			case *ast.CompositeLit:
				lt := tinfo.TypeOf(s)
				if lt == nil {
					return true
				}
				if n, ok := lt.(*types.Named); ok && n.Obj() == owner.Obj() {
					lits = append(lits, s)
				} else if n, ok := types.Unalias(lt).(*types.Named); ok && n.Obj() == owner.Obj() {
					lits = append(lits, s)
				}
			case *ast.CallExpr:
				// new(T), make([]T, n), reflection decoders into *T
				if id, ok := ast.Unparen(s.Fun).(*ast.Ident); ok {
					if b, ok := tinfo.Uses[id].(*types.Builtin); ok && (b.Name() == "new" || b.Name() == "make") && len(s.Args) > 0 {
						if t := tinfo.TypeOf(s.Args[0]); t != nil && typeContainsByValue(t, owner, 0) && !zeroOK {
							bad = true
						}
					}
				}
				if fn := core.Callee(tinfo, s); fn != nil && fn.Pkg() != nil && strings.HasPrefix(fn.Pkg().Path(), "encoding/") {
					for _, a := range s.Args {
						if t := tinfo.TypeOf(a); t != nil && typeContainsByValue(derefType(t), owner, 0) {
							bad = true
						}
					}
				}
			case *ast.ValueSpec:
				if s.Type != nil && len(s.Values) == 0 && !zeroOK {
					if t := tinfo.TypeOf(s.Type); t != nil && typeContainsByValue(t, owner, 0) {
						bad = true
					}
				}
			}
			return true
		})
		if bad {
			return false, ""
		}
		for _, lit := range lits {
			set := false
			st := owner.Underlying().(*types.Struct)
			for i, el := range lit.Elts {
				var ff *types.Var
				var val ast.Expr
				if kv, ok := el.(*ast.KeyValueExpr); ok {
					if id, ok := kv.Key.(*ast.Ident); ok {
						ff, _ = tinfo.Uses[id].(*types.Var)
					}
					val = kv.Value
				} else if i < st.NumFields() {
					ff, val = st.Field(i), el
				}
				if ff != f {
					continue
				}
				set = true
				cc := e.CtxEnclosing(fi, lit.Pos())
				if cc == nil {
					return false, ""
				}
				node, ok := cc.nodeOf[ast.Node(lit)]
				if !ok {
					continue
				}
				side := &sink{At: Point{Kind: PtBefore, Node: node}}
				v, ok := valueOf(cc, val, side)
				if !ok || !holds(cc, node, val, v, side) {
					return false, ""
				}
				writers = append(writers, cc.Name+" (literal)")
			}
			if set || zeroOK {
				continue
			}
			// zero-valued f: the literal must be the start of a constructor that assigns f before returning the object
			if !hasWrite || !e.constructorAssigns(fi, lit, f, obligFn) {
				return false, ""
			}
		}
	}
	// other packages cannot name f, but they can hold T by value / zero-create it
	if !zeroOK {
		for _, pk := range e.P.Pkgs {
			for _, file := range pk.Syntax {
				bad := false
				ast.Inspect(file, func(x ast.Node) bool {
					switch s := x.(type) {
					case *ast.StructType:
						for _, fl := range s.Fields.List {
							if t := pk.TypesInfo.TypeOf(fl.Type); t != nil && typeContainsByValue(t, owner, 0) {
								bad = true
							}
						}
					case *ast.ValueSpec:
						if s.Type != nil && len(s.Values) == 0 {
							if t := pk.TypesInfo.TypeOf(s.Type); t != nil && typeContainsByValue(t, owner, 0) {
								bad = true
							}
						}
					case *ast.CompositeLit:
						if pk.Types != f.Pkg() {
							if t := pk.TypesInfo.TypeOf(s); t != nil {
								if n, ok := types.Unalias(t).(*types.Named); ok && n.Obj() == owner.Obj() {
									bad = true // built outside its package: f cannot have been set
								}
							}
						}
					}
					return !bad
				})
				if bad {
					return false, ""
				}
			}
		}
	}
	if len(writers) == 0 {
		if !zeroOK {
			return false, ""
		}
		writers = append(writers, "never assigned: zero value")
	}
	sort.Strings(writers)
	r := "field invariant of " + owner.Obj().Name() + "." + f.Name() + ": every store satisfies it (" + strings.Join(uniq(writers), ", ") + ")"
	e.fieldInvMemo[key] = r
	return true, r
}

func derefType(t types.Type) types.Type {
	if p, ok := t.Underlying().(*types.Pointer); ok {
		return p.Elem()
	}
	return t
}

// typeContainsByValue reports whether a value of type t embeds a T by value (T itself, arrays, slices
// and maps of T, structs with such fields) — i.e. creating a zero t creates a zero T.
func typeContainsByValue(t types.Type, owner *types.Named, depth int) bool {
	if depth > 4 {
		return false
	}
	if n, ok := types.Unalias(t).(*types.Named); ok {
		if n.Obj() == owner.Obj() {
			return true
		}
	}
	switch u := t.Underlying().(type) {
	case *types.Array:
		return typeContainsByValue(u.Elem(), owner, depth+1)
	case *types.Slice:
		return typeContainsByValue(u.Elem(), owner, depth+1)
	case *types.Map:
		return typeContainsByValue(u.Elem(), owner, depth+1)
	case *types.Struct:
		for i := 0; i < u.NumFields(); i++ {
			if typeContainsByValue(u.Field(i).Type(), owner, depth+1) {
				return true
			}
		}
	}
	return false
}

func (e *Engine) structOwning(f *types.Var) *types.Named {
	sc := f.Pkg().Scope()
	for _, nm := range sc.Names() {
		tn, ok := sc.Lookup(nm).(*types.TypeName)
		if !ok {
			continue
		}
		named, ok := tn.Type().(*types.Named)
		if !ok {
			continue
		}
		st, ok := named.Underlying().(*types.Struct)
		if !ok {
			continue
		}
		for i := 0; i < st.NumFields(); i++ {
			if st.Field(i) == f {
				return named
			}
		}
	}
	return nil
}

// constructorAssigns: lit (a T literal omitting f) initialises a local variable v of function fi;
// every return that mentions v is dominated by an assignment v.f = ...; and no call made on/with v
// between the literal and that assignment can reach the function carrying the obligation.
func (e *Engine) constructorAssigns(fi *core.FuncInfo, lit *ast.CompositeLit, f *types.Var, obligFn *types.Func) bool {
	c := e.CtxEnclosing(fi, lit.Pos())
	if c == nil {
		return false
	}
	info := c.Info
	// find `v := &T{...}` / `v := T{...}` / `var v = ...`
	var v *types.Var
	var body ast.Node = fi.Decl.Body
	if c.Lit != nil {
		body = c.Lit.Body
	}
	core.InspectShallow(body, func(x ast.Node) bool {
		match := func(lhs ast.Expr, rhs ast.Expr) {
			r := ast.Unparen(rhs)
			if u, ok := r.(*ast.UnaryExpr); ok && u.Op == token.AND {
				r = ast.Unparen(u.X)
			}
			if r == ast.Expr(lit) {
				v = core.VarOf(info, lhs)
			}
		}
		switch s := x.(type) {
		case *ast.AssignStmt:
			if len(s.Lhs) == len(s.Rhs) {
				for i := range s.Lhs {
					match(s.Lhs[i], s.Rhs[i])
				}
			}
		case *ast.ValueSpec:
			if len(s.Names) == len(s.Values) {
				for i := range s.Names {
					match(s.Names[i], s.Values[i])
				}
			}
		}
		return true
	})
	if v == nil || c.wild[v] || len(c.defs[v]) != 1 {
		return false
	}
	litNode, ok := c.nodeOf[ast.Node(lit)]
	if !ok {
		return false
	}
	// assignments v.f = ...
	writes := map[int]bool{}
	for n, ts := range c.targets {
		for _, t := range ts {
			if t.path != nil && t.path.Root == v && len(t.path.Fields) == 1 && t.path.Fields[0] == f {
				writes[n] = true
			}
		}
	}
	if len(writes) == 0 {
		return false
	}
	// every return mentioning v is dominated by a write
	for _, rn := range c.G.Returns() {
		rs, ok := c.G.Nodes[rn].Ast.(*ast.ReturnStmt)
		if !ok {
			continue
		}
		mentions := false
		for _, rx := range rs.Results {
			if mentionsVar(info, rx, v) {
				mentions = true
			}
		}
		if len(rs.Results) == 0 {
			mentions = true // named results: be conservative
		}
		if mentions && !c.G.Dominated(rn, writes) {
			return false
		}
	}
	// calls involving v before the field is assigned must not reach the obligation's function;
	// v must not be stored anywhere else before that
	before := c.G.Reach([]int{litNode}, func(n int) bool { return writes[n] }, nil)
	for n := range before {
		if writes[n] {
			continue
		}
		nd := c.G.Nodes[n]
		if nd.Ast == nil {
			continue
		}
		for _, call := range c.calls[n] {
			uses := false
			for _, a := range call.Args {
				if mentionsVar(info, a, v) {
					uses = true
				}
			}
			if sel, ok := ast.Unparen(call.Fun).(*ast.SelectorExpr); ok && mentionsVar(info, sel.X, v) {
				uses = true
			}
			if !uses {
				continue
			}
			fn := core.Callee(info, call)
			if fn == nil || e.P.DeclOf(fn) == nil {
				return false
			}
			if e.reaches(fn, obligFn) {
				return false
			}
		}
		// v stored into something else (field, slice, channel, global) before the write
		escaped := false
		core.InspectShallow(nd.Ast, func(x ast.Node) bool {
			switch s := x.(type) {
			case *ast.AssignStmt:
				for i, r := range s.Rhs {
					if mentionsVar(info, r, v) && i < len(s.Lhs) {
						if lv := core.VarOf(info, s.Lhs[i]); lv == nil || !c.local[lv] {
							if ast.Unparen(r) != ast.Expr(lit) {
								escaped = true
							}
						}
					}
				}
			case *ast.SendStmt:
				if mentionsVar(info, s.Value, v) {
					escaped = true
				}
			case *ast.GoStmt:
				escaped = escaped || mentionsVarNode(info, s, v)
			case *ast.DeferStmt:
				escaped = escaped || mentionsVarNode(info, s, v)
			}
			return true
		})
		if escaped {
			return false
		}
	}
	return true
}

func mentionsVarNode(info *types.Info, n ast.Node, v *types.Var) bool {
	found := false
	ast.Inspect(n, func(x ast.Node) bool {
		if id, ok := x.(*ast.Ident); ok && info.Uses[id] == types.Object(v) {
			found = true
		}
		return !found
	})
	return found
}

// reaches reports whether target is reachable from fn in the module's static call graph
// (interface calls resolved to every module method of that name and signature).
func (e *Engine) reaches(fn, target *types.Func) bool {
	seen := map[*types.Func]bool{fn: true}
	work := []*types.Func{fn}
	for len(work) > 0 {
		f := work[len(work)-1]
		work = work[:len(work)-1]
		if f == target {
			return true
		}
		d := e.directOf(f)
		if d.unknownCall || e.P.DeclOf(f) == nil {
			return true
		}
		for _, cal := range d.callees {
			if !seen[cal] {
				seen[cal] = true
				work = append(work, cal)
			}
		}
	}
	return false
}
