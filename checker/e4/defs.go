package e4

import (
	"fmt"
	"go/ast"
	"go/token"
	"go/types"
	"sort"
	"strings"

	"verif/checker/core"
)

// pathType returns the static type of the value at the path.
func pathType(p *Path) types.Type {
	if len(p.Fields) > 0 {
		return p.Fields[len(p.Fields)-1].Type()
	}
	return p.Root.Type()
}

func (c *FnCtx) samePath(e ast.Expr, p *Path) bool {
	q := c.pathOf(e)
	return q != nil && q.key() == p.key()
}

// linMentions reports whether l contains an atom of path p (value, len or cap).
func linMentions(l Lin, p *Path) bool {
	k := p.key()
	for a := range l.T {
		s := string(a)
		if len(s) > 2 && s[2:] == k && (s[:2] == "V:" || s[:2] == "L:" || s[:2] == "C:") {
			return true
		}
	}
	return false
}

// pathDefFacts adds what definition node d says about the value (or length) at path p.
func (c *FnCtx) pathDefFacts(p *Path, d int, s *sink, facts *[]PFact, disjs *[]PDisj) {
	nd := c.G.Nodes[d]
	if nd.Ast == nil {
		return // range loop head: handled by rangeFactsFor
	}
	t := pathType(p)
	isInt := isIntegerType(t)
	hasLen := hasLenType(t)
	if !isInt && !hasLen {
		// a struct (pointer) variable defined from a module call: facts about the fields of the result
		if len(p.Fields) == 0 {
			before := len(s.Facts)
			if rhs, call, idx := c.defRHS(p.Root, d); call != nil {
				c.E.callResultFacts(c, call, idx, p.Root, d, s)
			} else if rhs != nil {
				if ce, ok := ast.Unparen(rhs).(*ast.CallExpr); ok {
					c.E.callResultFacts(c, ce, 0, p.Root, d, s)
				}
			}
			// constant bounds of the result's fields, so that they survive later changes of the arguments
			seen := map[Atom]bool{}
			for _, f := range s.Facts[before:] {
				for a := range f.L.T {
					if pi := c.E.paths[a]; pi != nil && pi.Root == p.Root && len(pi.Fields) > 0 && !seen[a] {
						seen[a] = true
					}
				}
			}
			var as []string
			for a := range seen {
				as = append(as, string(a))
			}
			sort.Strings(as)
			for _, a := range as {
				c.constBounds(Atom(a), d, s, facts)
			}
		}
		return
	}
	core.InspectShallow(nd.Ast, func(x ast.Node) bool {
		switch st := x.(type) {
		case *ast.IncDecStmt:
			if isInt && c.samePath(st.X, p) {
				delta := int64(1)
				if st.Tok == token.DEC {
					delta = -1
				}
				c.opAssignFacts(p, d, Const(delta), true, s, facts, disjs)
			}
		case *ast.AssignStmt:
			for i, l := range st.Lhs {
				if !c.samePath(l, p) {
					continue
				}
				switch st.Tok {
				case token.ASSIGN, token.DEFINE:
					if len(st.Rhs) == len(st.Lhs) {
						c.simpleDefFacts(p, st.Rhs[i], d, s, facts, disjs)
					} else if len(st.Rhs) == 1 && len(p.Fields) == 0 {
						if call, ok := ast.Unparen(st.Rhs[0]).(*ast.CallExpr); ok {
							c.E.callResultFacts(c, call, i, p.Root, d, s)
						}
					}
				case token.ADD_ASSIGN, token.SUB_ASSIGN:
					if isInt && len(st.Rhs) == 1 {
						pre := &sink{At: Point{Kind: PtAfter, Node: d}}
						if r, ok := c.linOf(st.Rhs[0], pre); ok && c.stableAcross(d, r) {
							if st.Tok == token.SUB_ASSIGN {
								r = r.Scale(-1)
							}
							tame := c.E.tameExpr(c, st.Rhs[0])
							ghost := Atom(fmt.Sprintf("G:%s@%d", p.key(), d))
							va := c.atomFor("V:", p)
							for _, f := range c.filterStable(d, pre.Facts) {
								f.L = renameAtom(f.L, va, ghost)
								*facts = append(*facts, f)
							}
							for _, dj := range pre.Disjs {
								var dd Disj
								for _, alt := range dj.D {
									var na Alt
									for _, l := range alt {
										na = append(na, renameAtom(l, va, ghost))
									}
									dd = append(dd, na)
								}
								*disjs = append(*disjs, PDisj{D: dd, At: dj.At})
							}
							c.opAssignFacts(p, d, r, tame, s, facts, disjs)
						}
					}
				}
			}
		case *ast.ValueSpec:
			for i, nm := range st.Names {
				if !c.samePath(nm, p) {
					continue
				}
				if len(st.Values) == len(st.Names) {
					c.simpleDefFacts(p, st.Values[i], d, s, facts, disjs)
				} else if len(st.Values) == 0 {
					if isInt {
						s.fact("zero value", EQ(Var(c.atomFor("V:", p)), Const(0))...)
					} else {
						s.fact("zero value", EQ(Var(c.atomFor("L:", p)), Const(0))...)
					}
				} else if len(st.Values) == 1 {
					if call, ok := ast.Unparen(st.Values[0]).(*ast.CallExpr); ok {
						c.E.callResultFacts(c, call, i, p.Root, d, s)
					}
				}
			}
		}
		return true
	})
}

func (c *FnCtx) tamePath(p *Path) bool {
	if len(p.Fields) > 0 {
		return c.E.tameVar(p.Fields[len(p.Fields)-1])
	}
	return c.E.tameVar(p.Root)
}

// factsBefore returns the candidate facts of node d that hold when d starts executing.
func (c *FnCtx) factsBefore(d int) []PFact {
	pf, _ := c.candidateFacts(d)
	var out []PFact
	for _, f := range pf {
		if c.usableAt(f.L, f.At, d, nil) {
			out = append(out, f)
		}
	}
	return out
}

// opAssignFacts handles p = p_old + delta: p_old becomes a ghost atom that inherits what was known about p before d.
func (c *FnCtx) opAssignFacts(p *Path, d int, delta Lin, tame bool, s *sink, facts *[]PFact, disjs *[]PDisj) {
	r, ok := c.E.intRange(pathType(p))
	if !ok {
		return
	}
	if !(r.signed && r.bits == 64 && tame && c.tamePath(p)) {
		return // wrap-around cannot be excluded: nothing is known about the new value
	}
	va := c.atomFor("V:", p)
	ghost := Atom(fmt.Sprintf("G:%s@%d", p.key(), d))
	// delta may mention p itself (old value)
	if k, has := delta.T[va]; has {
		delta = delta.clone()
		delete(delta.T, va)
		delta.T[ghost] += k
	}
	s.fact("update of "+p.String(), EQ(Var(va), Var(ghost).Plus(delta))...)
	if c.E.nonNegPath(p) {
		s.always("never negative", GE(Var(ghost), Const(0)))
	}
	// what was known about p just before d
	for _, f := range c.factsBefore(d) {
		if _, has := f.L.T[va]; !has {
			continue
		}
		nl := f.L.clone()
		k := nl.T[va]
		delete(nl.T, va)
		nl.T[ghost] += k
		*facts = append(*facts, PFact{L: nl, At: f.At, Note: f.Note + " (before update)"})
	}
	c.constBounds(va, d, s, facts)
}

// simpleDefFacts: p = rhs.
func (c *FnCtx) simpleDefFacts(p *Path, rhs ast.Expr, d int, s *sink, facts *[]PFact, disjs *[]PDisj) {
	after := Point{Kind: PtAfter, Node: d}
	if isIntegerType(pathType(p)) {
		va := c.atomFor("V:", p)
		// the RHS is evaluated before the assignment takes effect; the assignment itself only changes p,
		// so the RHS atoms keep their value across it unless a call inside the RHS may write them
		post := &sink{At: after}
		r, ok := c.linOf(rhs, post)
		if !ok || !c.stableAcross(d, r) {
			return
		}
		pfacts := c.filterStable(d, post.Facts)
		pdisjs := post.Disjs
		selfRef := linMentions(r, p)
		for _, f := range pfacts {
			selfRef = selfRef || linMentions(f.L, p)
		}
		for _, dj := range pdisjs {
			for _, alt := range dj.D {
				for _, l := range alt {
					selfRef = selfRef || linMentions(l, p)
				}
			}
		}
		if selfRef {
			// p = f(p): inside the RHS, p denotes the value before the assignment — a ghost
			ghost := Atom(fmt.Sprintf("G:%s@%d", p.key(), d))
			r = renameAtom(r, va, ghost)
			for i := range pfacts {
				pfacts[i].L = renameAtom(pfacts[i].L, va, ghost)
			}
			var nd []PDisj
			for _, dj := range pdisjs {
				var dd Disj
				for _, alt := range dj.D {
					var na Alt
					for _, l := range alt {
						na = append(na, renameAtom(l, va, ghost))
					}
					dd = append(dd, na)
				}
				nd = append(nd, PDisj{D: dd, At: dj.At})
			}
			pdisjs = nd
			if c.E.nonNegPath(p) {
				s.always("never negative", GE(Var(ghost), Const(0)))
			}
			for _, f := range c.factsBefore(d) {
				if _, has := f.L.T[va]; has {
					*facts = append(*facts, PFact{L: renameAtom(f.L, va, ghost), At: f.At, Note: f.Note + " (before update)"})
				}
			}
		}
		*facts = append(*facts, pfacts...)
		*disjs = append(*disjs, pdisjs...)
		if call, ok := ast.Unparen(rhs).(*ast.CallExpr); ok && len(p.Fields) == 0 {
			c.E.callResultFacts(c, call, 0, p.Root, d, s)
		}
		for _, l := range EQ(Var(va), r) {
			*facts = append(*facts, PFact{L: l, At: after, Note: "definition of " + p.String()})
		}
		if !r.IsConst() {
			c.constBounds(va, d, s, facts)
		}
		return
	}
	// slice / string: length facts
	la := c.atomFor("L:", p)
	if c.selfLenFacts(p, rhs, d, s, facts, disjs) {
		c.constBounds(la, d, s, facts)
		return
	}
	pre := &sink{At: after}
	rhs = ast.Unparen(rhs)
	var eqs, ges []Lin
	switch x := rhs.(type) {
	case *ast.CompositeLit:
		if _, ok := c.Info.TypeOf(x).Underlying().(*types.Slice); ok {
			keyed := false
			for _, el := range x.Elts {
				if _, ok := el.(*ast.KeyValueExpr); ok {
					keyed = true
				}
			}
			if !keyed {
				eqs = append(eqs, Const(int64(len(x.Elts))))
			}
		}
	case *ast.CallExpr:
		handled := false
		if id, ok := ast.Unparen(x.Fun).(*ast.Ident); ok {
			if b, ok := c.Info.Uses[id].(*types.Builtin); ok {
				handled = true
				switch b.Name() {
				case "make":
					if len(x.Args) >= 2 {
						if n, ok := c.linOf(x.Args[1], pre); ok {
							eqs = append(eqs, n)
						}
					}
				case "append":
					if len(x.Args) >= 1 {
						if l, ok := c.lenOfExpr(x.Args[0], false, pre); ok {
							if x.Ellipsis == token.NoPos {
								eqs = append(eqs, l.PlusK(int64(len(x.Args)-1)))
							} else if len(x.Args) == 2 {
								if l2, ok := c.lenOfExpr(x.Args[1], false, pre); ok {
									eqs = append(eqs, l.Plus(l2))
								} else {
									ges = append(ges, l)
								}
							}
						}
					}
				}
			}
		}
		if !handled {
			if l, ok := c.lenOfExpr(x, false, pre); ok && !strings.HasPrefix(firstAtom(l), "O:") {
				eqs = append(eqs, l) // conversions string <-> []byte
			}
			if len(p.Fields) == 0 {
				c.E.callResultFacts(c, x, 0, p.Root, d, s)
			}
		}
	default:
		if core.IsNilIdent(c.Info, rhs) {
			eqs = append(eqs, Const(0))
		} else if l, ok := c.lenOfExpr(rhs, false, pre); ok && !strings.HasPrefix(firstAtom(l), "O:") {
			eqs = append(eqs, l)
		}
	}
	note := "length of " + p.String() + " from its definition"
	nonConst := false
	for _, l := range eqs {
		if linMentions(l, p) || !c.stableAcross(d, l) {
			continue
		}
		nonConst = nonConst || !l.IsConst()
		for _, f := range EQ(Var(la), l) {
			*facts = append(*facts, PFact{L: f, At: after, Note: note})
		}
	}
	for _, l := range ges {
		if linMentions(l, p) || !c.stableAcross(d, l) {
			continue
		}
		nonConst = nonConst || !l.IsConst()
		*facts = append(*facts, PFact{L: GE(Var(la), l), At: after, Note: note})
	}
	for _, f := range c.filterStable(d, pre.Facts) {
		if !linMentions(f.L, p) {
			*facts = append(*facts, f)
		}
	}
	for _, dj := range pre.Disjs {
		ok := true
		for _, alt := range dj.D {
			for _, l := range alt {
				if linMentions(l, p) {
					ok = false
				}
			}
		}
		if ok {
			*disjs = append(*disjs, dj)
		}
	}
	if nonConst {
		c.constBounds(la, d, s, facts)
	}
}

// renameAtom returns l with atom from replaced by to.
func renameAtom(l Lin, from, to Atom) Lin {
	k, has := l.T[from]
	if !has {
		return l
	}
	n := l.clone()
	delete(n.T, from)
	n.T[to] += k
	if n.T[to] == 0 {
		delete(n.T, to)
	}
	return n
}

func firstAtom(l Lin) string {
	for _, a := range l.Atoms() {
		return string(a)
	}
	return ""
}

// stableAcross reports whether the through-pointer atoms of l keep their value while node d executes
// (no call inside d may write them).
func (c *FnCtx) stableAcross(d int, l Lin) bool {
	for a := range l.T {
		if info := c.E.paths[a]; info != nil && info.Ptr {
			for _, call := range c.calls[d] {
				if c.E.callMayWrite(c, call, info) {
					return false
				}
			}
		}
	}
	return true
}

func (c *FnCtx) filterStable(d int, fs []PFact) []PFact {
	var out []PFact
	for _, f := range fs {
		if f.At.Kind == PtAlways || c.stableAcross(d, f.L) {
			out = append(out, f)
		}
	}
	return out
}

// selfLenFacts handles p = p[a:b] and p = append(p, ...). It reports whether the RHS had that shape.
func (c *FnCtx) selfLenFacts(p *Path, rhs ast.Expr, d int, s *sink, facts *[]PFact, disjs *[]PDisj) bool {
	rhs = ast.Unparen(rhs)
	la := c.atomFor("L:", p)
	ghost := Atom(fmt.Sprintf("G:len(%s)@%d", p.key(), d))
	pre := &sink{At: Point{Kind: PtAfter, Node: d}}
	var newLen Lin
	have, ge := false, false
	switch x := rhs.(type) {
	case *ast.SliceExpr:
		if !c.samePath(x.X, p) {
			return false
		}
		lo := Const(0)
		if x.Low != nil {
			l, ok := c.linOf(x.Low, pre)
			if !ok {
				return true
			}
			lo = l
		}
		hi := Var(ghost)
		if x.High != nil {
			h, ok := c.linOf(x.High, pre)
			if !ok {
				return true
			}
			hi = h
		}
		newLen, have = hi.Minus(lo), true
	case *ast.CallExpr:
		id, ok := ast.Unparen(x.Fun).(*ast.Ident)
		if !ok {
			return false
		}
		b, ok := c.Info.Uses[id].(*types.Builtin)
		if !ok || b.Name() != "append" || len(x.Args) < 1 || !c.samePath(x.Args[0], p) {
			return false
		}
		if x.Ellipsis == token.NoPos {
			newLen, have = Var(ghost).PlusK(int64(len(x.Args)-1)), true
		} else {
			newLen, have, ge = Var(ghost), true, true
		}
	default:
		return false
	}
	if !have {
		return true
	}
	// bounds that mention p itself refer to the old value
	if k, has := newLen.T[la]; has {
		newLen = newLen.clone()
		delete(newLen.T, la)
		newLen.T[ghost] += k
	}
	if !c.stableAcross(d, newLen) {
		return true
	}
	for _, f := range c.filterStable(d, pre.Facts) {
		f.L = renameAtom(f.L, la, ghost)
		*facts = append(*facts, f)
	}
	for _, dj := range pre.Disjs {
		var dd Disj
		for _, alt := range dj.D {
			var na Alt
			for _, l := range alt {
				na = append(na, renameAtom(l, la, ghost))
			}
			dd = append(dd, na)
		}
		*disjs = append(*disjs, PDisj{D: dd, At: dj.At})
	}
	if ge {
		s.fact("append", GE(Var(la), newLen))
	} else {
		s.fact("reslice/append", EQ(Var(la), newLen)...)
	}
	s.always("len>=0", GE(Var(ghost), Const(0)))
	for _, f := range c.factsBefore(d) {
		if _, has := f.L.T[la]; !has {
			continue
		}
		nl := f.L.clone()
		k := nl.T[la]
		delete(nl.T, la)
		nl.T[ghost] += k
		*facts = append(*facts, PFact{L: nl, At: f.At, Note: f.Note + " (before reslice)"})
	}
	return true
}

// constBounds derives, by projection, the constant bounds of atom x right after definition node d
// (so that they survive later changes of the atoms the definition was computed from).
func (c *FnCtx) constBounds(x Atom, d int, s *sink, facts *[]PFact) {
	key := fmt.Sprintf("%s@%d", x, d)
	if b, ok := c.boundsMemo[key]; ok {
		*facts = append(*facts, b...)
		return
	}
	c.boundsMemo[key] = nil
	after := Point{Kind: PtAfter, Node: d}
	var all []Lin
	// facts valid when d starts, minus what d itself invalidates
	info := c.E.paths[x]
	for _, f := range c.factsBefore(d) {
		ok := true
		for a := range f.L.T {
			if a == x {
				ok = false // old value of x
				break
			}
			if pi := c.E.paths[a]; pi != nil && c.nodeKills(d, pi, a, nil) {
				ok = false
				break
			}
		}
		if ok {
			all = append(all, f.L)
		}
	}
	_ = info
	// what d establishes (already collected in *facts and s with point "after d")
	for _, f := range *facts {
		if f.At == after || f.At.Kind == PtAlways {
			all = append(all, f.L)
		}
	}
	for _, f := range s.Facts {
		if f.At == after || f.At.Kind == PtAlways {
			all = append(all, f.L)
		}
	}
	rel := relevant(all, nil, Var(x))
	proj := Project(rel, func(a Atom) bool { return a == x })
	var out []PFact
	for _, l := range proj {
		if len(l.T) == 1 {
			out = append(out, PFact{L: l, At: after, Note: "bound implied by the definition"})
		}
	}
	c.boundsMemo[key] = out
	*facts = append(*facts, out...)
}
