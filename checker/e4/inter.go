package e4

import (
	"fmt"
	"go/ast"
	"go/token"
	"go/types"
	"os"
	"sort"
	"strings"

	"verif/checker/core"
)

// ---------------------------------------------------------------------------
// call sites
// ---------------------------------------------------------------------------

func (e *Engine) buildCallSites() {
	if e.sitesBuilt {
		return
	}
	e.sitesBuilt = true
	// a function is "used as a value" iff some identifier resolving to it is
	// neither the Fun of a call nor the Sel of a selector that is the Fun of a call.
	for _, fi := range e.P.AllFuncs() {
		if fi.Decl.Body == nil {
			continue
		}
		info := fi.Pkg.TypesInfo
		called := map[*ast.Ident]bool{}
		ast.Inspect(fi.Decl.Body, func(x ast.Node) bool {
			if call, ok := x.(*ast.CallExpr); ok {
				switch f := ast.Unparen(call.Fun).(type) {
				case *ast.Ident:
					called[f] = true
				case *ast.SelectorExpr:
					called[f.Sel] = true
				}
			}
			return true
		})
		ast.Inspect(fi.Decl.Body, func(x ast.Node) bool {
			if id, ok := x.(*ast.Ident); ok && !called[id] {
				if fn, ok := info.Uses[id].(*types.Func); ok {
					e.fnValueUse[fn.Origin()] = true
				}
			}
			return true
		})
		// call sites, attributed to the innermost function body
		var visit func(body ast.Node, ctxOf func() *FnCtx)
		visit = func(body ast.Node, ctxOf func() *FnCtx) {
			core.InspectShallow(body, func(x ast.Node) bool {
				switch s := x.(type) {
				case *ast.FuncLit:
					if ast.Node(s) == body {
						return true
					}
					lit := s
					visit(lit.Body, func() *FnCtx { return e.CtxOfLit(lit) })
					return false
				case *ast.CallExpr:
					if fn := core.Callee(info, s); fn != nil && e.P.DeclOf(fn) != nil {
						e.callSites[fn] = append(e.callSites[fn], &CallSite{Caller: nil, Node: -1, Call: s})
						cs := e.callSites[fn][len(e.callSites[fn])-1]
						cs.Caller = ctxOf()
						if cs.Caller != nil {
							if n, ok := cs.Caller.nodeOf[ast.Node(s)]; ok {
								cs.Node = n
							}
						}
					}
				}
				return true
			})
		}
		f := fi
		visit(fi.Decl.Body, func() *FnCtx { return e.CtxOfDecl(f) })
	}
}

// closed reports whether every caller of fn is a static call site inside the module.
func (e *Engine) closed(fn *types.Func) bool {
	e.buildCallSites()
	if fn.Exported() {
		return false
	}
	if e.fnValueUse[fn] {
		return false
	}
	sig := fn.Type().(*types.Signature)
	if sig.Recv() != nil && fn.Pkg() != nil {
		// an unexported method may still be reached through an interface of the same package
		sc := fn.Pkg().Scope()
		for _, nm := range sc.Names() {
			tn, ok := sc.Lookup(nm).(*types.TypeName)
			if !ok {
				continue
			}
			if it, ok := tn.Type().Underlying().(*types.Interface); ok {
				for i := 0; i < it.NumMethods(); i++ {
					if it.Method(i).Name() == fn.Name() {
						return false
					}
				}
			}
		}
	}
	return true
}

// paramVars lists receiver (if any) followed by parameters.
func paramVars(fn *types.Func) (recv *types.Var, params []*types.Var) {
	sig := fn.Type().(*types.Signature)
	recv = sig.Recv()
	for i := 0; i < sig.Params().Len(); i++ {
		params = append(params, sig.Params().At(i))
	}
	return
}

// argFor returns the argument expression bound to parameter index i at a call (nil for variadic tails).
func argFor(sig *types.Signature, call *ast.CallExpr, i int) ast.Expr {
	if sig.Variadic() && i >= sig.Params().Len()-1 {
		return nil
	}
	if i < len(call.Args) {
		return call.Args[i]
	}
	return nil
}

// ---------------------------------------------------------------------------
// entry facts: what every caller establishes about the parameters
// ---------------------------------------------------------------------------

var entryDepth int

func (e *Engine) entryFacts(c *FnCtx) ([]PFact, []PDisj) {
	if c.Lit != nil || c.Owner == nil {
		return nil, nil
	}
	fn := c.Owner.Obj
	if !e.closed(fn) {
		return nil, nil
	}
	sites := e.callSites[fn]
	if len(sites) == 0 {
		return nil, nil
	}
	_, params := paramVars(fn)
	sig := fn.Type().(*types.Signature)
	var out []PFact
	at := Point{Kind: PtEntry}
	for i, p := range params {
		if !isIntegerType(p.Type()) || c.wild[p] {
			continue
		}
		pa := c.atomFor("V:", c.varPath(p))
		// same constant at every site?
		allConst, first, same := true, int64(0), true
		for si, cs := range sites {
			arg := argFor(sig, cs.Call, i)
			if arg == nil || cs.Caller == nil {
				allConst = false
				break
			}
			k, ok := constInt(cs.Caller.Info, arg)
			if !ok {
				allConst = false
				break
			}
			if si == 0 {
				first = k
			} else if k != first {
				same = false
			}
		}
		if allConst && same {
			for _, l := range EQ(Var(pa), Const(first)) {
				out = append(out, PFact{L: l, At: at, Note: "every caller passes " + p.Name() + " = const"})
			}
			continue
		}
		if allConst {
			lo, hi := first, first
			for _, cs := range sites {
				k, _ := constInt(cs.Caller.Info, argFor(sig, cs.Call, i))
				if k < lo {
					lo = k
				}
				if k > hi {
					hi = k
				}
			}
			out = append(out, PFact{L: GE(Var(pa), Const(lo)), At: at, Note: "every caller passes a constant " + p.Name()},
				PFact{L: LE(Var(pa), Const(hi)), At: at, Note: "every caller passes a constant " + p.Name()})
			continue
		}
	}
	return out, nil
}

// ProveAtCallers tries to establish goal (over entry-stable parameter atoms of c) at every call site.
// It returns the reason when it succeeds.
func (e *Engine) ProveAtCallers(c *FnCtx, goal Lin, depth int) (bool, string) {
	if c.Lit != nil || c.Owner == nil || depth > 3 {
		return false, ""
	}
	fn := c.Owner.Obj
	if !e.closed(fn) {
		return false, ""
	}
	sites := e.callSites[fn]
	if len(sites) == 0 {
		return false, ""
	}
	recv, params := paramVars(fn)
	sig := fn.Type().(*types.Signature)
	idx := map[*types.Var]int{}
	for i, p := range params {
		idx[p] = i
	}
	var names []string
	for _, cs := range sites {
		if cs.Caller == nil || cs.Node < 0 {
			return false, ""
		}
		cc := cs.Caller
		side := &sink{At: Point{Kind: PtBefore, Node: cs.Node}}
		sub := Const(goal.K)
		for a, k := range goal.T {
			info := e.paths[a]
			if info == nil {
				return false, ""
			}
			var argExpr ast.Expr
			if info.Root == recv && recv != nil {
				if sel, ok := ast.Unparen(cs.Call.Fun).(*ast.SelectorExpr); ok {
					argExpr = sel.X
				}
			} else if i, ok := idx[info.Root]; ok {
				argExpr = argFor(sig, cs.Call, i)
			}
			if argExpr == nil {
				return false, ""
			}
			var l Lin
			var ok bool
			if len(info.Fields) > 0 {
				// field path below the parameter: rebuild the path under the argument's path
				ap := cc.pathOf(argExpr)
				if ap == nil || !cc.usablePath(ap) {
					return false, ""
				}
				np := &Path{Root: ap.Root, Fields: append(append([]*types.Var{}, ap.Fields...), info.Fields...), Ptr: ap.Ptr || info.Ptr}
				switch {
				case strings.HasPrefix(string(a), "V:"):
					at := cc.atomFor("V:", np)
					l, ok = Var(at), true
				case strings.HasPrefix(string(a), "L:"):
					at := cc.atomFor("L:", np)
					side.always("len>=0", GE(Var(at), Const(0)))
					l, ok = Var(at), true
				case strings.HasPrefix(string(a), "C:"):
					at := cc.atomFor("C:", np)
					lt := cc.atomFor("L:", np)
					side.always("cap>=len", GE(Var(at), Var(lt)))
					l, ok = Var(at), true
				}
			} else {
				switch {
				case strings.HasPrefix(string(a), "V:"):
					l, ok = cc.linOf(argExpr, side)
				case strings.HasPrefix(string(a), "L:"):
					l, ok = cc.lenOfExpr(argExpr, false, side)
				case strings.HasPrefix(string(a), "C:"):
					l, ok = cc.lenOfExpr(argExpr, true, side)
				}
			}
			if !ok {
				return false, ""
			}
			var ok2 bool
			sub, ok2 = sub.AddScaled(l, k)
			if !ok2 {
				return false, ""
			}
		}
		fs := cc.FactsFor(cs.Node, cs.Call, side)
		e.ProveCalls++
		if fs.Proves(sub) {
			names = append(names, cc.Name)
			continue
		}
		// one more level: the caller's own callers
		if ok, _ := e.liftGoal(cc, cs.Node, cs.Call, sub, depth+1); ok {
			names = append(names, cc.Name+"^")
			continue
		}
		if os.Getenv("VERIF_E4_DEBUG") == "2" {
			var fl []string
			for _, f := range relevant(fs.Facts, fs.Disjs, sub) {
				fl = append(fl, e.pretty(f)+" >= 0")
			}
			fmt.Fprintf(os.Stderr, "E4 caller %s @%s cannot establish %s >= 0; facts: %s\n", cc.Name, e.P.Pos(cs.Call.Pos()), e.pretty(sub), strings.Join(fl, "; "))
		}
		return false, ""
	}
	sort.Strings(names)
	return true, "established by every caller (" + strings.Join(uniq(names), ", ") + ")"
}

func uniq(s []string) []string {
	var out []string
	for i, x := range s {
		if i == 0 || x != s[i-1] {
			out = append(out, x)
		}
	}
	return out
}

// liftGoal: goal over atoms of c at node n; if all atoms are entry-stable parameter atoms, prove it at the callers.
func (e *Engine) liftGoal(c *FnCtx, n int, use ast.Node, goal Lin, depth int) (bool, string) {
	if c.Lit != nil || c.Owner == nil {
		return false, ""
	}
	recv, params := paramVars(c.Owner.Obj)
	isParam := map[*types.Var]bool{}
	for _, p := range params {
		isParam[p] = true
	}
	if recv != nil {
		isParam[recv] = true
	}
	for a := range goal.T {
		info := e.paths[a]
		if info == nil || info.Text != "" || !isParam[info.Root] || c.wild[info.Root] {
			return false, ""
		}
	}
	if !c.usableAt(goal, Point{Kind: PtEntry}, n, use) {
		return false, ""
	}
	return e.ProveAtCallers(c, goal, depth)
}

// ---------------------------------------------------------------------------
// ensures: what a callee guarantees on its returns of a given class
// ---------------------------------------------------------------------------

type ensKey struct {
	fn    *types.Func
	class string // "nil" (error result nil), "true", "false", "any"
	idx   int    // result index the class speaks about (-1 for any)
}

type ensResult struct {
	facts []Lin // over parameter atoms (of the callee ctx) and R:j / RL:j result atoms
	busy  bool
}

func resAtom(j int) Atom    { return Atom("R:" + itoa(j)) }
func resLenAtom(j int) Atom { return Atom("R:len" + itoa(j)) }

func itoa(i int) string {
	if i == 0 {
		return "0"
	}
	s := ""
	neg := i < 0
	if neg {
		i = -i
	}
	for i > 0 {
		s = string(rune('0'+i%10)) + s
		i /= 10
	}
	if neg {
		s = "-" + s
	}
	return s
}

func (e *Engine) ensuresOf(fn *types.Func, class string, idx int) []Lin {
	key := ensKey{fn, class, idx}
	if r := e.ensures[key]; r != nil {
		if r.busy {
			return nil
		}
		return r.facts
	}
	res := &ensResult{busy: true}
	e.ensures[key] = res
	defer func() { res.busy = false }()
	fi := e.P.DeclOf(fn)
	c := e.CtxOfDecl(fi)
	if c == nil {
		return nil
	}
	sig := fn.Type().(*types.Signature)
	recv, params := paramVars(fn)
	isParam := map[*types.Var]bool{}
	for _, p := range params {
		if !c.wild[p] {
			isParam[p] = true
		}
	}
	if recv != nil && !c.wild[recv] {
		isParam[recv] = true
	}
	// a named result written by a (deferred) closure can change after the return statement ran
	for j := 0; j < sig.Results().Len(); j++ {
		if rv := sig.Results().At(j); rv.Name() != "" && c.wild[rv] {
			return nil
		}
	}
	// one "exit view" per way of leaving the function with a value of the class
	type view struct {
		facts []Lin
		disjs []Disj
		at    int // node whose entry-stability is checked for by-value parameter atoms
	}
	var views []view
	giveUp := false
	for _, rn := range c.G.Returns() {
		rs, ok := c.G.Nodes[rn].Ast.(*ast.ReturnStmt)
		if !ok {
			continue
		}
		if class != "any" && !c.returnMayBe(rs, rn, sig, class, idx) {
			continue
		}
		side := &sink{At: Point{Kind: PtBefore, Node: rn}}
		var extra []Lin
		switch {
		case len(rs.Results) == sig.Results().Len():
			for j, rx := range rs.Results {
				extra = append(extra, e.resultFacts(c, fn, j, rx, side)...)
			}
		case len(rs.Results) == 0:
			// bare return: the named results' current values
			for j := 0; j < sig.Results().Len(); j++ {
				nv := sig.Results().At(j)
				if nv.Name() == "" || nv.Name() == "_" || c.wild[nv] {
					continue
				}
				p := c.varPath(nv)
				if isIntegerType(nv.Type()) {
					a := c.atomFor("V:", p)
					c.rangeFacts(side, a, nv.Type())
					extra = append(extra, EQ(Var(resAtom(j)), Var(a))...)
				} else if hasLenType(nv.Type()) {
					a := c.atomFor("L:", p)
					side.always("len>=0", GE(Var(a), Const(0)))
					extra = append(extra, EQ(Var(resLenAtom(j)), Var(a))...)
				}
			}
		case len(rs.Results) == 1:
			// return f(args): the callee's results are passed through
			if call, ok := ast.Unparen(rs.Results[0]).(*ast.CallExpr); ok {
				if cal := core.Callee(c.Info, call); cal != nil {
					if e.P.DeclOf(cal) != nil {
						sub := &sink{At: Point{Kind: PtBefore, Node: rn}}
						e.instantiate(c, call, cal, e.ensuresOf(cal, "any", -1), rn, nil, sub)
						for _, f := range sub.Facts {
							if f.At.Kind == PtAlways {
								side.Facts = append(side.Facts, f)
							} else {
								extra = append(extra, f.L)
							}
						}
					} else if isReadContract(cal) && len(call.Args) >= 1 {
						if l, ok := c.lenOfExpr(call.Args[0], false, side); ok {
							extra = append(extra, GE(Var(resAtom(0)), Const(0)), LE(Var(resAtom(0)), l))
						}
					}
				}
			}
		}
		// `return b` with a boolean variable only ever assigned literals: the class pins down which
		// assignment executed last, and the facts on the way to that assignment hold
		if (class == "true" || class == "false") && len(rs.Results) == sig.Results().Len() && idx >= 0 && idx < len(rs.Results) {
			if defs, ok := c.literalBoolDefs(rs.Results[idx], class); ok {
				for _, d := range defs {
					if d < 0 {
						giveUp = true // the implicit zero value has the class: nothing is known
						continue
					}
					var fl []Lin
					pf, _ := c.candidateFacts(d)
					for _, f := range pf {
						if c.usableAt(f.L, f.At, d, nil) && c.usableAt(f.L, f.At, rn, nil) {
							fl = append(fl, f.L)
						}
					}
					for _, f := range side.Facts {
						if c.usableAt(f.L, f.At, rn, nil) {
							fl = append(fl, f.L)
						}
					}
					views = append(views, view{facts: append(fl, extra...), at: rn})
				}
				continue
			}
		}
		// `return <condition>`: on a return of class true/false the condition itself has that value
		if (class == "true" || class == "false") && len(rs.Results) == sig.Results().Len() && idx >= 0 && idx < len(rs.Results) {
			rx := ast.Unparen(rs.Results[idx])
			if tv, ok := c.Info.Types[rx]; !ok || tv.Value == nil {
				if _, isIdent := rx.(*ast.Ident); !isIdent {
					c.condFacts(rx, class == "true", side, 1)
				}
			}
		}
		fs := c.FactsFor(rn, rs, side)
		views = append(views, view{facts: append(append([]Lin{}, fs.Facts...), extra...), disjs: fs.Disjs, at: rn})
	}
	if len(views) == 0 || giveUp {
		return nil // no return of this class (or nothing known about one of them): say nothing
	}
	// candidates: what each exit view implies about the kept atoms; kept: those every view implies
	var cands []Lin
	seenCand := map[string]bool{}
	for _, v := range views {
		v := v
		keep := func(a Atom) bool {
			if strings.HasPrefix(string(a), "R:") {
				return true
			}
			info := e.paths[a]
			if info == nil || info.Text != "" {
				return false
			}
			if e.isResVar(info.Root) {
				return true
			}
			if !isParam[info.Root] {
				return false
			}
			if len(info.Fields) == 0 {
				// by-value parameter: the fact must speak about the value the caller passed
				return !c.killed(a, Point{Kind: PtEntry}, v.at)
			}
			// state reachable through a pointer parameter / receiver, as it is on return
			if _, isPtr := info.Root.Type().Underlying().(*types.Pointer); !isPtr {
				return false
			}
			return len(c.defs[info.Root]) == 0
		}
		seed := Lin{T: map[Atom]int64{}}
		for _, l := range v.facts {
			for a := range l.T {
				if keep(a) {
					seed.T[a] = 1
				}
			}
		}
		rel := relevant(v.facts, nil, seed)
		for _, l := range Project(rel, keep) {
			if k := l.key(); !seenCand[k] {
				seenCand[k] = true
				cands = append(cands, l)
			}
		}
	}
	var acc []Lin
	for _, l := range cands {
		ok := true
		for _, v := range views {
			// a candidate mentioning a by-value parameter must be about its entry value in this view too
			for a := range l.T {
				if info := e.paths[a]; info != nil && info.Text == "" && isParam[info.Root] && len(info.Fields) == 0 && c.killed(a, Point{Kind: PtEntry}, v.at) {
					ok = false
				}
			}
			if !ok {
				break
			}
			check := &FactSet{Facts: append(append([]Lin{}, v.facts...), e.atomAxioms(l)...), Disjs: v.disjs}
			e.ProveCalls++
			if !check.Proves(l) {
				ok = false
				break
			}
		}
		if ok {
			acc = append(acc, l)
		}
	}
	res.facts = acc
	return acc
}

// atomAxioms returns the facts that hold for the atoms of l by their kind alone
// (lengths are non-negative, cap >= len, values lie in their type's range).
func (e *Engine) atomAxioms(l Lin) []Lin {
	var out []Lin
	for a := range l.T {
		s := string(a)
		if len(s) < 3 {
			continue
		}
		switch s[:2] {
		case "L:":
			out = append(out, GE(Var(a), Const(0)))
		case "C:":
			out = append(out, GE(Var(a), Const(0)), GE(Var(a), Var(Atom("L:"+s[2:]))), GE(Var(Atom("L:"+s[2:])), Const(0)))
		case "V:":
			if info := e.paths[a]; info != nil {
				if r, ok := e.intRange(pathType(info)); ok {
					if r.hasLo {
						out = append(out, GE(Var(a), Const(r.lo)))
					}
					if r.hasHi {
						out = append(out, LE(Var(a), Const(r.hi)))
					}
				}
			}
		case "R:":
			if strings.HasPrefix(s, "R:len") {
				out = append(out, GE(Var(a), Const(0)))
			}
		}
	}
	return out
}

// resVar returns the synthetic variable standing for result j of fn (root of paths into a returned struct).
func (e *Engine) resVar(fn *types.Func, j int) *types.Var {
	if e.resVars == nil {
		e.resVars = map[resKey]*types.Var{}
		e.resVarSet = map[*types.Var]int{}
	}
	k := resKey{fn, j}
	if v := e.resVars[k]; v != nil {
		return v
	}
	sig := fn.Type().(*types.Signature)
	v := types.NewVar(token.Pos(1000000+len(e.resVars)), fn.Pkg(), "$ret"+itoa(j), sig.Results().At(j).Type())
	e.resVars[k] = v
	e.resVarSet[v] = j
	return v
}

func (e *Engine) isResVar(v *types.Var) bool {
	_, ok := e.resVarSet[v]
	return ok
}

// resultFacts describes result j returned as expression rx: its value, its length, or — for a
// struct (pointer) built by a composite literal — the values/lengths of its fields.
func (e *Engine) resultFacts(c *FnCtx, fn *types.Func, j int, rx ast.Expr, side *sink) []Lin {
	sig := fn.Type().(*types.Signature)
	rt := sig.Results().At(j).Type()
	var out []Lin
	switch {
	case isIntegerType(rt):
		if l, ok := c.linOf(rx, side); ok {
			out = append(out, EQ(Var(resAtom(j)), l)...)
		}
	case hasLenType(rt):
		if l, ok := c.lenOfExpr(rx, false, side); ok {
			out = append(out, EQ(Var(resLenAtom(j)), l)...)
		}
	default:
		x := ast.Unparen(rx)
		isPtr := false
		if u, ok := x.(*ast.UnaryExpr); ok && u.Op == token.AND {
			x, isPtr = ast.Unparen(u.X), true
		}
		cl, ok := x.(*ast.CompositeLit)
		if !ok {
			// a local variable holding the literal: `h := &T{...}; return h` is not followed here
			return nil
		}
		st, ok := c.Info.TypeOf(cl).Underlying().(*types.Struct)
		if !ok {
			return nil
		}
		root := e.resVar(fn, j)
		for i, el := range cl.Elts {
			var f *types.Var
			var val ast.Expr
			if kv, isKV := el.(*ast.KeyValueExpr); isKV {
				id, isID := kv.Key.(*ast.Ident)
				if !isID {
					continue
				}
				f, _ = c.Info.Uses[id].(*types.Var)
				val = kv.Value
			} else if i < st.NumFields() {
				f, val = st.Field(i), el
			}
			if f == nil {
				continue
			}
			p := &Path{Root: root, Fields: []*types.Var{f}, Ptr: isPtr}
			if isIntegerType(f.Type()) {
				if l, ok := c.linOf(val, side); ok {
					out = append(out, EQ(Var(c.atomFor("V:", p)), l)...)
				}
			} else if hasLenType(f.Type()) {
				if l, ok := c.lenOfExpr(val, false, side); ok {
					out = append(out, EQ(Var(c.atomFor("L:", p)), l)...)
				}
			}
		}
	}
	return out
}

// literalBoolDefs: x is a local boolean variable all of whose assignments are the literals true/false.
// It returns the definition nodes assigning the class value (-1 stands for the implicit zero value of a
// named result / `var b bool`).
func (c *FnCtx) literalBoolDefs(x ast.Expr, class string) ([]int, bool) {
	v := core.VarOf(c.Info, x)
	if v == nil || c.wild[v] || !c.local[v] {
		return nil, false
	}
	if b, ok := v.Type().Underlying().(*types.Basic); !ok || b.Kind() != types.Bool {
		return nil, false
	}
	var out []int
	for _, d := range c.defs[v] {
		rhs, call, _ := c.defRHS(v, d)
		if call != nil {
			return nil, false
		}
		if rhs == nil {
			// declaration without value: false
			nd := c.G.Nodes[d]
			isDecl := false
			if nd.Ast != nil {
				core.InspectShallow(nd.Ast, func(n ast.Node) bool {
					if vs, ok := n.(*ast.ValueSpec); ok && len(vs.Values) == 0 {
						for _, nm := range vs.Names {
							if c.Info.Defs[nm] == v {
								isDecl = true
							}
						}
					}
					return true
				})
			}
			if !isDecl {
				return nil, false
			}
			if class == "false" {
				out = append(out, d)
			}
			continue
		}
		tv, ok := c.Info.Types[ast.Unparen(rhs)]
		if !ok || tv.Value == nil {
			return nil, false
		}
		if tv.Value.String() == class {
			out = append(out, d)
		}
	}
	// a named result (or parameter) starts with an implicit value
	sig := c.Owner.Obj.Type().(*types.Signature)
	if c.Lit == nil {
		for i := 0; i < sig.Results().Len(); i++ {
			if sig.Results().At(i) == v {
				// implicit false unless every path assigns first; the explicit `b = false` at the top is the
				// common idiom — treat the implicit value as a contributor only for class false
				if class == "false" {
					out = append(out, -1)
				}
			}
		}
		for i := 0; i < sig.Params().Len(); i++ {
			if sig.Params().At(i) == v {
				return nil, false
			}
		}
	}
	return out, true
}

func hasLenType(t types.Type) bool {
	switch u := t.Underlying().(type) {
	case *types.Slice:
		return true
	case *types.Basic:
		return u.Info()&types.IsString != 0
	}
	return false
}

// returnMayBe reports whether the return statement can yield a value of the class at result idx.
func (c *FnCtx) returnMayBe(rs *ast.ReturnStmt, rn int, sig *types.Signature, class string, idx int) bool {
	if len(rs.Results) != sig.Results().Len() || idx < 0 || idx >= len(rs.Results) {
		return true
	}
	x := ast.Unparen(rs.Results[idx])
	switch class {
	case "nil":
		if core.IsNilIdent(c.Info, x) {
			return true
		}
		if c.definitelyNonNil(x, rn) {
			return false
		}
		return true
	case "true", "false":
		if tv, ok := c.Info.Types[x]; ok && tv.Value != nil {
			return tv.Value.String() == class
		}
		return true
	}
	return true
}

// definitelyNonNil recognises error expressions that cannot be nil.
func (c *FnCtx) definitelyNonNil(x ast.Expr, at int) bool {
	switch v := x.(type) {
	case *ast.CallExpr:
		if fn := core.Callee(c.Info, v); fn != nil && fn.Pkg() != nil {
			full := fn.Pkg().Path() + "." + fn.Name()
			switch full {
			case "errors.New", "fmt.Errorf", "errors.Join":
				return full != "errors.Join"
			}
		}
	case *ast.UnaryExpr:
		return v.Op == token.AND
	case *ast.CompositeLit:
		return true
	case *ast.Ident:
		obj, _ := c.Info.Uses[v].(*types.Var)
		if obj == nil {
			return false
		}
		if obj.Parent() != nil && obj.Pkg() != nil && obj.Parent() == obj.Pkg().Scope() && strings.HasPrefix(strings.ToLower(obj.Name()), "err") {
			return true // package-level sentinel error (initialised once with errors.New)
		}
		// local error variable under a dominating `err != nil` test
		for _, ref := range c.dominatingEdges(at) {
			ed := c.G.Nodes[ref.From].Succs[ref.Idx]
			if ed.Cond == nil || ed.Tag != nil {
				continue
			}
			be, ok := ast.Unparen(ed.Cond).(*ast.BinaryExpr)
			if !ok {
				continue
			}
			var other ast.Expr
			if core.VarOf(c.Info, be.X) == obj {
				other = be.Y
			} else if core.VarOf(c.Info, be.Y) == obj {
				other = be.X
			} else {
				continue
			}
			if !core.IsNilIdent(c.Info, other) {
				continue
			}
			nonNilEdge := (be.Op == token.NEQ && ed.Branch == 1) || (be.Op == token.EQL && ed.Branch == 2)
			if !nonNilEdge {
				continue
			}
			// not reassigned between the test and the return
			reg := c.region(Point{Kind: PtEdge, Edge: ref}, at)
			clean := true
			for _, d := range c.defs[obj] {
				if reg[d] {
					clean = false
				}
			}
			if clean && !c.wild[obj] {
				return true
			}
		}
	case *ast.SelectorExpr:
		if obj, ok := c.Info.Uses[v.Sel].(*types.Var); ok && obj.Pkg() != nil && obj.Parent() == obj.Pkg().Scope() {
			return strings.HasPrefix(strings.ToLower(obj.Name()), "err") || obj.Name() == "EOF"
		}
	}
	return false
}

// instantiate rewrites callee-side ensures facts into the caller's atoms at a call.
// lhsVar(j) gives the caller variable receiving result j (nil if none).
func (e *Engine) instantiate(c *FnCtx, call *ast.CallExpr, fn *types.Func, facts []Lin, d int, lhsVar func(j int) *types.Var, s *sink) {
	sig := fn.Type().(*types.Signature)
	cal := e.CtxOfDecl(e.P.DeclOf(fn))
	if cal == nil {
		return
	}
	recvVar, params := paramVars(fn)
	pidx := map[*types.Var]int{}
	for i, p := range params {
		pidx[p] = i
	}
	assigned := map[*types.Var]bool{}
	for _, t := range c.targets[d] {
		if t.path != nil && len(t.path.Fields) == 0 {
			assigned[t.path.Root] = true
		}
	}
	for _, f := range facts {
		sub := Const(f.K)
		ok := true
		for a, k := range f.T {
			var l Lin
			switch {
			case strings.HasPrefix(string(a), "R:") && lhsVar == nil:
				l = Var(a) // pass-through: the caller returns the callee's results unchanged
			case strings.HasPrefix(string(a), "R:len"):
				j := atoiSafe(string(a)[5:])
				v := lhsVar(j)
				if v == nil || c.wild[v] {
					ok = false
					break
				}
				la := c.atomFor("L:", c.varPath(v))
				s.always("len>=0", GE(Var(la), Const(0)))
				l = Var(la)
			case strings.HasPrefix(string(a), "R:"):
				j := atoiSafe(string(a)[2:])
				v := lhsVar(j)
				if v == nil || c.wild[v] {
					ok = false
					break
				}
				l = Var(c.atomFor("V:", c.varPath(v)))
			default:
				info := e.paths[a]
				if info == nil {
					ok = false
					break
				}
				pre := string(a)[:2]
				if j, isRes := e.resVarSet[info.Root]; isRes {
					// field of a returned struct: lives under the variable receiving the result
					if lhsVar == nil {
						ok = false
						break
					}
					v := lhsVar(j)
					if v == nil || c.wild[v] {
						ok = false
						break
					}
					_, vp := v.Type().Underlying().(*types.Pointer)
					np := &Path{Root: v, Fields: info.Fields, Ptr: vp}
					at := c.atomFor(pre, np)
					if pre == "L:" {
						s.always("len>=0", GE(Var(at), Const(0)))
					}
					l = Var(at)
					break
				}
				var arg ast.Expr
				if recvVar != nil && info.Root == recvVar {
					if sel, isSel := ast.Unparen(call.Fun).(*ast.SelectorExpr); isSel {
						arg = sel.X
					}
				} else if i, isP := pidx[info.Root]; isP {
					arg = argFor(sig, call, i)
				}
				if arg == nil {
					ok = false
					break
				}
				if len(info.Fields) > 0 {
					// state behind a pointer parameter / receiver as the callee leaves it
					ap := c.pathOf(arg)
					if ap == nil || !c.usablePath(ap) {
						ok = false
						break
					}
					np := &Path{Root: ap.Root, Fields: append(append([]*types.Var{}, ap.Fields...), info.Fields...), Ptr: true}
					at := c.atomFor(pre, np)
					if pre == "L:" {
						s.always("len>=0", GE(Var(at), Const(0)))
					}
					l = Var(at)
					break
				}
				// the argument must not read a variable the call statement itself assigns
				bad := false
				for v := range assigned {
					if mentionsVar(c.Info, arg, v) {
						bad = true
					}
				}
				if bad {
					ok = false
					break
				}
				var lok bool
				switch pre {
				case "V:":
					l, lok = c.linOf(arg, s)
				case "L:":
					l, lok = c.lenOfExpr(arg, false, s)
				case "C:":
					l, lok = c.lenOfExpr(arg, true, s)
				}
				if !lok {
					ok = false
					break
				}
				// through-pointer operands may be changed by the call itself
				for aa := range l.T {
					if pi := e.paths[aa]; pi != nil && pi.Ptr && e.callMayWrite(c, call, pi) {
						ok = false
					}
				}
			}
			if !ok {
				break
			}
			var ok2 bool
			sub, ok2 = sub.AddScaled(l, k)
			if !ok2 {
				ok = false
				break
			}
		}
		if ok {
			s.fact("post-condition of "+core.FuncName(fn), sub)
		}
	}
}

func atoiSafe(s string) int {
	n := 0
	for _, r := range s {
		if r < '0' || r > '9' {
			return -1
		}
		n = n*10 + int(r-'0')
	}
	return n
}

// lhsVarsOf returns a lookup of the variables assigned from a call's results at node d.
func (c *FnCtx) lhsVarsOf(call *ast.CallExpr, d int) func(j int) *types.Var {
	var lhs []ast.Expr
	nd := c.G.Nodes[d]
	if nd.Ast != nil {
		core.InspectShallow(nd.Ast, func(x ast.Node) bool {
			switch st := x.(type) {
			case *ast.AssignStmt:
				if len(st.Rhs) == 1 && ast.Unparen(st.Rhs[0]) == ast.Expr(call) {
					lhs = st.Lhs
				}
			case *ast.ValueSpec:
				if len(st.Values) == 1 && ast.Unparen(st.Values[0]) == ast.Expr(call) {
					for _, nm := range st.Names {
						lhs = append(lhs, nm)
					}
				}
			}
			return true
		})
	}
	return func(j int) *types.Var {
		if j < 0 || j >= len(lhs) {
			return nil
		}
		return core.VarOf(c.Info, lhs[j])
	}
}

// errNilFacts: the sink's point is an edge on which error variable v is nil.
func (e *Engine) errNilFacts(c *FnCtx, v *types.Var, s *sink) {
	useNode, ok := pointNode(c, s.At)
	if !ok || c.wild[v] {
		return
	}
	d, rhs, call, idx := c.uniqueDef(v, useNode)
	if d < 0 {
		return
	}
	if rhs != nil {
		ce, ok := ast.Unparen(rhs).(*ast.CallExpr)
		if !ok {
			return
		}
		call, idx = ce, 0
	}
	if call == nil {
		return
	}
	sub := &sink{At: Point{Kind: PtAfter, Node: d}}
	fn := core.Callee(c.Info, call)
	if fn == nil {
		return
	}
	if e.P.DeclOf(fn) != nil {
		facts := e.ensuresOf(fn, "nil", idx)
		e.instantiate(c, call, fn, facts, d, c.lhsVarsOf(call, d), sub)
	} else {
		e.externalNilFacts(c, call, fn, d, sub)
	}
	s.Facts = append(s.Facts, sub.Facts...)
	s.Disjs = append(s.Disjs, sub.Disjs...)
}

// callCondFacts: `if f(x)` / `if !f(x)` with a module function returning bool.
func (e *Engine) callCondFacts(c *FnCtx, call *ast.CallExpr, truth bool, s *sink) {
	fn := core.Callee(c.Info, call)
	if fn == nil {
		return
	}
	if e.P.DeclOf(fn) == nil {
		// strings/bytes.HasPrefix/HasSuffix(s, p) true  =>  len(s) >= len(p)
		switch fullName(fn) {
		case "strings.HasPrefix", "strings.HasSuffix", "bytes.HasPrefix", "bytes.HasSuffix":
			if truth && len(call.Args) == 2 {
				ls, ok1 := c.lenOfExpr(call.Args[0], false, s)
				lp, ok2 := c.lenOfExpr(call.Args[1], false, s)
				if ok1 && ok2 {
					s.fact("HasPrefix/HasSuffix contract", GE(ls, lp))
				}
			}
		}
		return
	}
	sig := fn.Type().(*types.Signature)
	if sig.Results().Len() != 1 {
		return
	}
	class := "false"
	if truth {
		class = "true"
	}
	n, ok := pointNode(c, s.At)
	if !ok {
		return
	}
	facts := e.ensuresOf(fn, class, 0)
	e.instantiate(c, call, fn, facts, n, func(int) *types.Var { return nil }, s)
}

// callResultBoolFacts: ok := f(x) (idx-th result) known to be truth.
func (e *Engine) callResultBoolFacts(c *FnCtx, call *ast.CallExpr, idx int, truth bool, d int, s *sink) {
	fn := core.Callee(c.Info, call)
	if fn == nil || e.P.DeclOf(fn) == nil {
		return
	}
	class := "false"
	if truth {
		class = "true"
	}
	facts := e.ensuresOf(fn, class, idx)
	e.instantiate(c, call, fn, facts, d, c.lhsVarsOf(call, d), s)
}

// callResultFacts: v receives result idx of call at node d (sink point: after d).
func (e *Engine) callResultFacts(c *FnCtx, call *ast.CallExpr, idx int, v *types.Var, d int, s *sink) {
	fn := core.Callee(c.Info, call)
	if fn == nil {
		// dynamic call: io.Reader-like contract through an interface value is resolved by Callee too; nothing here
		return
	}
	if e.P.DeclOf(fn) != nil {
		facts := e.ensuresOf(fn, "any", -1)
		// only facts that mention this result
		var mine []Lin
		for _, f := range facts {
			if _, ok := f.T[resAtom(idx)]; ok {
				mine = append(mine, f)
			} else if _, ok := f.T[resLenAtom(idx)]; ok {
				mine = append(mine, f)
			} else {
				for a := range f.T {
					if pi := e.paths[a]; pi != nil {
						if j, isRes := e.resVarSet[pi.Root]; isRes && j == idx {
							mine = append(mine, f)
							break
						}
					}
				}
			}
		}
		e.instantiate(c, call, fn, mine, d, c.lhsVarsOf(call, d), s)
		return
	}
	e.externalResultFacts(c, call, fn, idx, v, d, s)
}

// ---------------------------------------------------------------------------
// contracts of well-known external functions (trusted, listed in the evidence)
// ---------------------------------------------------------------------------

// ExternalContracts lists the library contracts the engine relies on.
var ExternalContracts = []string{
	"strings.Split/SplitN/SplitAfter with a non-empty separator return at least one element (SplitN with n>0: at most n)",
	"strings.Index*/bytes.Index* return -1 or an index i with i+len(sep) <= len(s)",
	"io.Reader.Read / io.ReadFull / io.ReadAtLeast return 0 <= n <= len(p); ReadFull returns n == len(p) when err == nil",
	"every method named Read or Peek of another module with signature (p []byte, ...) (n int, ..., err error) follows the io.Reader contract 0 <= n <= len(p) (srtp.ReadStreamSRTP/SRTCP, interceptor.RTPReader/RTCPReader, net.Conn, ...)",
	"copy returns 0 <= n <= min(len(dst), len(src))",
	"strings/bytes.HasPrefix/HasSuffix(s, p) == true implies len(s) >= len(p)",
	"package-level variables named err…/Err… (sentinel errors created once with errors.New) and io.EOF are never nil",
	"encoding/binary ByteOrder.UintN/PutUintN index their argument up to N/8-1 and nothing else",
}

func fullName(fn *types.Func) string {
	if fn.Pkg() == nil {
		return fn.Name()
	}
	sig := fn.Type().(*types.Signature)
	if sig.Recv() != nil {
		t := sig.Recv().Type()
		if p, ok := t.(*types.Pointer); ok {
			t = p.Elem()
		}
		if n, ok := t.(*types.Named); ok {
			return fn.Pkg().Path() + "." + n.Obj().Name() + "." + fn.Name()
		}
	}
	return fn.Pkg().Path() + "." + fn.Name()
}

// isReadContract: a method named Read or Peek declared outside the module whose first parameter is a byte
// slice, whose first result is an int and whose last result is an error (io.Reader, net.Conn,
// srtp.ReadStreamSRTP.Read/Peek, interceptor.RTPReader/RTCPReader.Read, ...): 0 <= n <= len(p).
func isReadContract(fn *types.Func) bool {
	sig := fn.Type().(*types.Signature)
	if (fn.Name() != "Read" && fn.Name() != "Peek") || sig.Recv() == nil || sig.Params().Len() < 1 || sig.Results().Len() < 2 {
		return false
	}
	p0 := sig.Params().At(0).Type()
	if _, isSlice := p0.Underlying().(*types.Slice); !isSlice || !isBytesOrString(p0) {
		return false
	}
	if !isIntegerType(sig.Results().At(0).Type()) || !isErrorType(sig.Results().At(sig.Results().Len()-1).Type()) {
		return false
	}
	return fn.Pkg() != nil && !strings.HasPrefix(fn.Pkg().Path(), core.ModPath)
}

func (e *Engine) externalResultFacts(c *FnCtx, call *ast.CallExpr, fn *types.Func, idx int, v *types.Var, d int, s *sink) {
	// the facts relate the new value of v to the arguments as evaluated before the call: an argument that
	// reads a variable assigned by this very statement would be confused with its new value
	assigned := map[*types.Var]bool{v: true}
	for _, t := range c.targets[d] {
		if t.path != nil && len(t.path.Fields) == 0 {
			assigned[t.path.Root] = true
		}
	}
	for _, a := range call.Args {
		for av := range assigned {
			if mentionsVar(c.Info, a, av) {
				return
			}
		}
	}
	if sel, ok := ast.Unparen(call.Fun).(*ast.SelectorExpr); ok {
		for av := range assigned {
			if mentionsVar(c.Info, sel.X, av) {
				return
			}
		}
	}
	name := fullName(fn)
	p := c.varPath(v)
	switch {
	case name == "strings.Split" || name == "strings.SplitAfter" || name == "strings.SplitN" || name == "strings.SplitAfterN" ||
		name == "bytes.Split" || name == "bytes.SplitN":
		if idx != 0 || len(call.Args) < 2 {
			return
		}
		if l, ok := c.lenOfExpr(call.Args[1], false, nil); !ok || !l.IsConst() || l.K < 1 {
			return // separator not a non-empty constant
		}
		la := c.atomFor("L:", p)
		if strings.HasSuffix(fn.Name(), "N") {
			n, ok := constInt(c.Info, call.Args[2])
			if !ok || n == 0 {
				return
			}
			if n > 0 {
				s.fact("strings.SplitN contract", LE(Var(la), Const(n)))
			}
		}
		s.fact("strings.Split contract", GE(Var(la), Const(1)))
	case strings.HasPrefix(name, "strings.Index") || strings.HasPrefix(name, "strings.LastIndex") ||
		strings.HasPrefix(name, "bytes.Index") || strings.HasPrefix(name, "bytes.LastIndex"):
		if idx != 0 || len(call.Args) < 2 || !isIntegerType(v.Type()) {
			return
		}
		va := Var(c.atomFor("V:", p))
		hay, ok := c.lenOfExpr(call.Args[0], false, s)
		if !ok {
			return
		}
		s.fact("Index contract", GE(va, Const(-1)), LE(va, hay.PlusK(-1)))
		needle := Const(1)
		switch fn.Name() {
		case "Index", "LastIndex":
			n, ok := c.lenOfExpr(call.Args[1], false, s)
			if !ok {
				return
			}
			needle = n
		case "IndexByte", "LastIndexByte":
		default:
			return
		}
		s.disj(Disj{Alt(EQ(va, Const(-1))), Alt{GE(va, Const(0)), LE(va.Plus(needle), hay)}})
	case name == "io.ReadFull" || name == "io.ReadAtLeast":
		if idx != 0 || len(call.Args) < 2 || !isIntegerType(v.Type()) {
			return
		}
		va := Var(c.atomFor("V:", p))
		if l, ok := c.lenOfExpr(call.Args[1], false, s); ok {
			s.fact("io.ReadFull contract", GE(va, Const(0)), LE(va, l))
		}
	case isReadContract(fn):
		if idx != 0 || len(call.Args) < 1 || !isIntegerType(v.Type()) {
			return
		}
		va := Var(c.atomFor("V:", p))
		if l, ok := c.lenOfExpr(call.Args[0], false, s); ok {
			s.fact("io.Reader contract", GE(va, Const(0)), LE(va, l))
		}
	}
}

// externalNilFacts: facts that hold when the error result of an external call is nil.
func (e *Engine) externalNilFacts(c *FnCtx, call *ast.CallExpr, fn *types.Func, d int, s *sink) {
	if fullName(fn) == "io.ReadFull" && len(call.Args) == 2 {
		lhs := c.lhsVarsOf(call, d)
		if v := lhs(0); v != nil && !c.wild[v] && isIntegerType(v.Type()) {
			if l, ok := c.lenOfExpr(call.Args[1], false, s); ok {
				s.fact("io.ReadFull contract (err == nil)", EQ(Var(c.atomFor("V:", c.varPath(v))), l)...)
			}
		}
	}
}

// ---------------------------------------------------------------------------
// may-write summaries (which struct fields a call may assign)
// ---------------------------------------------------------------------------

type writeSet struct {
	top    bool
	fields map[*types.Var]bool
	busy   bool
}

var purePkgs = map[string]bool{
	"strings": true, "strconv": true, "bytes": true, "errors": true, "fmt": true, "math": true, "math/bits": true,
	"unicode": true, "unicode/utf8": true, "encoding/binary": true, "slices": true, "sort": true, "time": true,
	"sync/atomic": true, "encoding/hex": true, "encoding/base64": true, "net/url": true, "maps": true, "io": true,
}

// callMayWrite reports whether executing call may change the quantity at path info (a through-pointer path).
func (e *Engine) callMayWrite(c *FnCtx, call *ast.CallExpr, info *Path) bool {
	if info.Text != "" {
		return e.callMayWriteAny(c, call)
	}
	if tv, ok := c.Info.Types[call.Fun]; ok && tv.IsType() {
		return false
	}
	if id, ok := ast.Unparen(call.Fun).(*ast.Ident); ok {
		if _, ok := c.Info.Uses[id].(*types.Builtin); ok {
			return false
		}
	}
	if len(info.Fields) == 0 {
		// an address-taken variable: whoever holds the pointer may write it during any call that is not known to be pure
		if fn := core.Callee(c.Info, call); fn != nil && e.P.DeclOf(fn) == nil && fn.Pkg() != nil && (purePkgs[fn.Pkg().Path()] || fn.Pkg().Path() == "sync") {
			return false
		}
		return true
	}
	unexportedOnly := true
	for _, f := range info.Fields {
		if f.Exported() {
			unexportedOnly = false
		}
	}
	fn := core.Callee(c.Info, call)
	if fn == nil {
		// function value or (rarely) unresolved: a module closure could do anything
		if sel, ok := ast.Unparen(call.Fun).(*ast.SelectorExpr); ok {
			if s := c.Info.Selections[sel]; s != nil && s.Kind() == types.MethodVal {
				return e.dynamicMayWrite(s.Obj().(*types.Func), info, unexportedOnly)
			}
		}
		return true
	}
	sig := fn.Type().(*types.Signature)
	if sig.Recv() != nil {
		if _, isIface := sig.Recv().Type().Underlying().(*types.Interface); isIface {
			return e.dynamicMayWrite(fn, info, unexportedOnly)
		}
	}
	if fi := e.P.DeclOf(fn); fi != nil {
		ws := e.writesOf(fn)
		if ws.top {
			return true
		}
		for _, f := range info.Fields {
			if ws.fields[f] {
				return true
			}
		}
		return false
	}
	// external static callee: it cannot assign unexported fields of module structs
	if fn.Pkg() != nil && purePkgs[fn.Pkg().Path()] {
		return false
	}
	if fn.Pkg() != nil && fn.Pkg().Path() == "sync" {
		return false // same-goroutine reasoning only: concurrent writers are outside the claim (see NotCovered)
	}
	return !unexportedOnly
}

// callMayWriteAny reports whether the call may write any memory the caller can observe (used for
// expression atoms with index steps, whose elements anybody holding the slice may store to).
func (e *Engine) callMayWriteAny(c *FnCtx, call *ast.CallExpr) bool {
	if tv, ok := c.Info.Types[call.Fun]; ok && tv.IsType() {
		return false
	}
	if id, ok := ast.Unparen(call.Fun).(*ast.Ident); ok {
		if b, ok := c.Info.Uses[id].(*types.Builtin); ok {
			return b.Name() == "copy" || b.Name() == "clear" || b.Name() == "delete"
		}
	}
	fn := core.Callee(c.Info, call)
	if fn == nil {
		return true
	}
	if e.P.DeclOf(fn) != nil {
		return true
	}
	if fn.Pkg() != nil && (purePkgs[fn.Pkg().Path()] || fn.Pkg().Path() == "sync") {
		// library functions that write into their slice argument
		switch fullName(fn) {
		case "sort.Slice", "sort.SliceStable", "sort.Sort", "sort.Stable", "sort.Strings", "sort.Ints", "slices.Sort", "slices.SortFunc",
			"slices.SortStableFunc", "slices.Reverse", "io.ReadFull", "io.ReadAtLeast", "encoding/binary.Read":
			return true
		}
		if strings.HasPrefix(fn.Name(), "Put") || strings.HasPrefix(fn.Name(), "Append") {
			return true
		}
		return false
	}
	return true
}

// dynamicMayWrite: interface method call — union over the module methods with that name and signature;
// implementations outside the module cannot assign unexported fields.
func (e *Engine) dynamicMayWrite(m *types.Func, info *Path, unexportedOnly bool) bool {
	if !unexportedOnly {
		return true
	}
	for _, fi := range e.P.AllFuncs() {
		if fi.Obj.Name() != m.Name() || fi.Decl.Recv == nil {
			continue
		}
		s1 := fi.Obj.Type().(*types.Signature)
		s2 := m.Type().(*types.Signature)
		if !types.Identical(types.NewSignatureType(nil, nil, nil, s1.Params(), s1.Results(), s1.Variadic()),
			types.NewSignatureType(nil, nil, nil, s2.Params(), s2.Results(), s2.Variadic())) {
			continue
		}
		ws := e.writesOf(fi.Obj)
		if ws.top {
			return true
		}
		for _, f := range info.Fields {
			if ws.fields[f] {
				return true
			}
		}
	}
	return false
}

type directWrites struct {
	top         bool
	unknownCall bool // calls a function value that is not a literal of the same body
	fields      map[*types.Var]bool
	callees     []*types.Func
}

func (e *Engine) directOf(fn *types.Func) *directWrites {
	if e.direct == nil {
		e.direct = map[*types.Func]*directWrites{}
	}
	if d := e.direct[fn]; d != nil {
		return d
	}
	ws := &directWrites{fields: map[*types.Var]bool{}}
	e.direct[fn] = ws
	fi := e.P.DeclOf(fn)
	if fi == nil || fi.Decl.Body == nil {
		ws.top = true
		return ws
	}
	info := fi.Pkg.TypesInfo
	ast.Inspect(fi.Decl.Body, func(x ast.Node) bool {
		switch s := x.(type) {
		case *ast.AssignStmt:
			for _, l := range s.Lhs {
				writtenField(info, l, ws)
			}
		case *ast.IncDecStmt:
			writtenField(info, s.X, ws)
		case *ast.RangeStmt:
			if s.Tok == token.ASSIGN {
				if s.Key != nil {
					writtenField(info, s.Key, ws)
				}
				if s.Value != nil {
					writtenField(info, s.Value, ws)
				}
			}
		case *ast.UnaryExpr:
			if s.Op == token.AND {
				// &x.f handed out: whoever receives it may write f (an element address &x.f[i] exposes no header)
				if f := core.FieldOf(info, s.X); f != nil {
					ws.fields[f] = true
				}
			}
		case *ast.CallExpr:
			if tv, ok := info.Types[s.Fun]; ok && tv.IsType() {
				return true
			}
			if id, ok := ast.Unparen(s.Fun).(*ast.Ident); ok {
				if _, ok := info.Uses[id].(*types.Builtin); ok {
					return true
				}
			}
			cal := core.Callee(info, s)
			if cal == nil {
				if sel, ok := ast.Unparen(s.Fun).(*ast.SelectorExpr); ok {
					if se := info.Selections[sel]; se != nil && se.Kind() == types.MethodVal {
						ws.callees = append(ws.callees, e.moduleImplementations(se.Obj().(*types.Func))...)
						return true
					}
				}
				// call of a function value: a closure defined in this body is already covered (its
				// body is part of this walk); anything else is unknown
				if _, isLit := ast.Unparen(s.Fun).(*ast.FuncLit); isLit {
					return true
				}
				if id, ok := ast.Unparen(s.Fun).(*ast.Ident); ok {
					if v, ok := info.Uses[id].(*types.Var); ok && v.Pos() >= fi.Decl.Pos() && v.Pos() < fi.Decl.End() && !isParamOf(fi.Obj, v) {
						return true
					}
				}
				ws.top = true
				ws.unknownCall = true
				return true
			}
			sig := cal.Type().(*types.Signature)
			if sig.Recv() != nil {
				if _, isIface := sig.Recv().Type().Underlying().(*types.Interface); isIface {
					ws.callees = append(ws.callees, e.moduleImplementations(cal)...)
					return true
				}
			}
			if e.P.DeclOf(cal) != nil {
				ws.callees = append(ws.callees, cal)
			}
		}
		return true
	})
	return ws
}

// writesOf is the transitive closure of directOf over the module call graph.
func (e *Engine) writesOf(fn *types.Func) *writeSet {
	if ws := e.fieldWrites[fn]; ws != nil {
		return ws
	}
	ws := &writeSet{fields: map[*types.Var]bool{}}
	seen := map[*types.Func]bool{fn: true}
	work := []*types.Func{fn}
	for len(work) > 0 {
		f := work[len(work)-1]
		work = work[:len(work)-1]
		d := e.directOf(f)
		if d.top {
			ws.top = true
		}
		for fl := range d.fields {
			ws.fields[fl] = true
		}
		for _, cal := range d.callees {
			if !seen[cal] {
				seen[cal] = true
				work = append(work, cal)
			}
		}
	}
	e.fieldWrites[fn] = ws
	return ws
}

func isParamOf(fn *types.Func, v *types.Var) bool {
	sig := fn.Type().(*types.Signature)
	for i := 0; i < sig.Params().Len(); i++ {
		if sig.Params().At(i) == v {
			return true
		}
	}
	return false
}

func (e *Engine) moduleImplementations(m *types.Func) []*types.Func {
	var out []*types.Func
	s2 := m.Type().(*types.Signature)
	for _, fi := range e.P.AllFuncs() {
		if fi.Obj.Name() != m.Name() || fi.Decl.Recv == nil {
			continue
		}
		s1 := fi.Obj.Type().(*types.Signature)
		if types.Identical(types.NewSignatureType(nil, nil, nil, s1.Params(), s1.Results(), s1.Variadic()),
			types.NewSignatureType(nil, nil, nil, s2.Params(), s2.Results(), s2.Variadic())) {
			out = append(out, fi.Obj)
		}
	}
	return out
}

// writtenField records the field an assignment target writes: the outermost selector. Element stores
// (x.f[i] = v) change no slice header; stores through an explicit dereference may change anything.
func writtenField(info *types.Info, lhs ast.Expr, ws *directWrites) {
	switch l := ast.Unparen(lhs).(type) {
	case *ast.SelectorExpr:
		if f := core.FieldOf(info, l); f != nil {
			ws.fields[f] = true
		}
	case *ast.StarExpr:
		ws.top = true
	case *ast.IndexExpr:
		if _, isMap := info.TypeOf(l.X).Underlying().(*types.Map); isMap {
			if f := core.FieldOf(info, l.X); f != nil {
				ws.fields[f] = true // len of the map changes
			}
		}
	}
}

func collectFields(info *types.Info, e ast.Expr, into map[*types.Var]bool) {
	ast.Inspect(e, func(x ast.Node) bool {
		if se, ok := x.(*ast.SelectorExpr); ok {
			if f := core.FieldOf(info, se); f != nil {
				into[f] = true
			}
		}
		return true
	})
}
