// Package e4 is engine E4 of the design: integer range / bounds obligations.
//
// Obligations come from two sources: (a) the bounds checks the Go compiler's
// prove pass could NOT eliminate (-d=ssa/check_bce/debug=1), re-derived on
// every run by compiling exactly the scoped packages, and (b) syntactic
// obligations found in the scoped functions (explicit panics, single-value type
// assertions, integer division, narrowing conversions, computed make sizes).
// They are discharged by a small linear-arithmetic prover (Fourier–Motzkin)
// fed with facts collected from dominating guards (go/cfg dominance),
// definitions, range loops, caller-side guards and callee post-conditions.
// Nothing of the analysed module is ever executed: the compiler is only asked
// to compile (not link, not run) the package.
package e4

import (
	"bytes"
	"encoding/json"
	"fmt"
	"io"
	"os"
	"os/exec"
	"path/filepath"
	"regexp"
	"sort"
	"strconv"
	"strings"
	"sync"
)

// BCEDiag is one "Found IsInBounds / IsSliceInBounds" diagnostic of the compiler.
type BCEDiag struct {
	File    string // absolute path
	Line    int
	Col     int
	Kind    string // IsInBounds | IsSliceInBounds
	Verdict string // Found (check kept: the prove pass could not decide), Proved, Disproved
}

// BCEResult holds the residual bounds checks of one package.
type BCEResult struct {
	PkgPath string
	Dir     string
	Files   []string
	Diags   []BCEDiag // de-duplicated, sorted
	WallMS  int64
}

type listPkg struct {
	ImportPath string
	Dir        string
	Export     string
	GoFiles    []string
	CgoFiles   []string
	SFiles     []string
	Standard   bool
	ImportMap  map[string]string
	Module     *struct {
		Path      string
		GoVersion string
	}
	Error *struct{ Err string }
}

var bceLine = regexp.MustCompile(`^(.*):(\d+):(\d+): (Found|Proved|Disproved) (IsInBounds|IsSliceInBounds)$`)

// other chatter of -d=ssa/prove/debug=1 that is not about bounds checks
var proveNoise = regexp.MustCompile(`^.*:\d+(:\d+)?: (Proved|Disproved|Induction variable:) `)

func goEnv(goarch string) []string {
	env := append(os.Environ(), "GOFLAGS=-mod=mod", "GOPROXY=off", "GOSUMDB=off", "GOTOOLCHAIN=local", "GOWORK=off")
	if goarch != "" {
		env = append(env, "GOARCH="+goarch)
	}
	return env
}

const bceCanarySrc = `package canary

func unproven(a []int, i int) int { return a[i] }

func proven(a []int) int {
	if len(a) < 3 {
		return 0
	}
	return a[2]
}

func disproved(p []byte) byte {
	if len(p) != 4 {
		return 0
	}
	return p[7]
}
`

// RunBCE compiles each of the given packages (import paths) of the module at
// repo with the prove pass's bounds-check report enabled and returns the
// residual checks per package. It never uses cached compiler output: the
// dependencies' export data come from `go list -export` (build cache), but the
// scoped package itself is compiled by a direct `go tool compile` invocation,
// so the diagnostics always describe the current source. A canary package is
// compiled with the same flags first; if it does not yield exactly the one
// expected diagnostic the run fails (the flag changed meaning or was ignored).
func RunBCE(repo, goarch string, pkgPaths []string) (map[string]*BCEResult, error) {
	tmp, err := os.MkdirTemp("", "verif-e4-bce")
	if err != nil {
		return nil, err
	}
	defer os.RemoveAll(tmp)
	env := goEnv(goarch)

	args := append([]string{"list", "-export", "-deps", "-json=ImportPath,Dir,Export,GoFiles,CgoFiles,SFiles,Standard,ImportMap,Module,Error"}, pkgPaths...)
	cmd := exec.Command("go", args...)
	cmd.Dir = repo
	cmd.Env = env
	var stderr bytes.Buffer
	cmd.Stderr = &stderr
	out, err := cmd.Output()
	if err != nil {
		return nil, fmt.Errorf("go list -export failed: %v: %s", err, firstLines(stderr.String(), 5))
	}
	byPath := map[string]*listPkg{}
	var importcfg bytes.Buffer
	dec := json.NewDecoder(bytes.NewReader(out))
	for {
		var lp listPkg
		if err := dec.Decode(&lp); err == io.EOF {
			break
		} else if err != nil {
			return nil, fmt.Errorf("go list output: %v", err)
		}
		if lp.Error != nil {
			return nil, fmt.Errorf("go list: package %s: %s", lp.ImportPath, lp.Error.Err)
		}
		p := lp
		byPath[lp.ImportPath] = &p
		if lp.Export != "" {
			fmt.Fprintf(&importcfg, "packagefile %s=%s\n", lp.ImportPath, lp.Export)
		}
	}

	// canary: the flag must report exactly the unprovable access
	cdir := filepath.Join(tmp, "canary")
	_ = os.MkdirAll(cdir, 0o755)
	cfile := filepath.Join(cdir, "canary.go")
	if err := os.WriteFile(cfile, []byte(bceCanarySrc), 0o644); err != nil {
		return nil, err
	}
	emptyCfg := filepath.Join(tmp, "empty.cfg")
	_ = os.WriteFile(emptyCfg, nil, 0o644)
	cd, err := compileBCE(env, cdir, "verif/canary", "", emptyCfg, filepath.Join(tmp, "canary.a"), []string{cfile})
	if err != nil {
		return nil, fmt.Errorf("bounds-check canary did not compile: %v", err)
	}
	want := map[int]string{3: "Found", 9: "Proved", 16: "Disproved"}
	got := map[int]string{}
	for _, d := range cd {
		if d.Kind == "IsInBounds" {
			got[d.Line] = d.Verdict
		}
	}
	for line, v := range want {
		if got[line] != v {
			return nil, fmt.Errorf("bounds-check canary: expected %s IsInBounds at canary.go:%d, compiler reported %v (the -d=ssa/check_bce / -d=ssa/prove flags no longer behave as assumed)", v, line, cd)
		}
	}

	res := map[string]*BCEResult{}
	var mu sync.Mutex
	var wg sync.WaitGroup
	var firstErr error
	sem := make(chan struct{}, 4)
	for i, pp := range pkgPaths {
		lp := byPath[pp]
		if lp == nil {
			return nil, fmt.Errorf("go list did not return package %s", pp)
		}
		if len(lp.CgoFiles) > 0 || len(lp.SFiles) > 0 {
			return nil, fmt.Errorf("package %s has cgo/assembly files; direct compile is not supported (fails closed)", pp)
		}
		if len(lp.GoFiles) == 0 {
			return nil, fmt.Errorf("package %s has no Go files", pp)
		}
		cfgPath := filepath.Join(tmp, fmt.Sprintf("importcfg.%d", i))
		var cfg bytes.Buffer
		for from, to := range lp.ImportMap {
			fmt.Fprintf(&cfg, "importmap %s=%s\n", from, to)
		}
		cfg.Write(importcfg.Bytes())
		if err := os.WriteFile(cfgPath, cfg.Bytes(), 0o644); err != nil {
			return nil, err
		}
		lang := ""
		if lp.Module != nil && lp.Module.GoVersion != "" {
			parts := strings.Split(lp.Module.GoVersion, ".")
			if len(parts) >= 2 {
				lang = "go" + parts[0] + "." + parts[1]
			}
		}
		var files []string
		for _, f := range lp.GoFiles {
			files = append(files, filepath.Join(lp.Dir, f))
		}
		wg.Add(1)
		go func(i int, lp *listPkg, lang, cfgPath string, files []string) {
			defer wg.Done()
			sem <- struct{}{}
			defer func() { <-sem }()
			d, err := compileBCE(env, lp.Dir, lp.ImportPath, lang, cfgPath, filepath.Join(tmp, fmt.Sprintf("out.%d.a", i)), files)
			mu.Lock()
			defer mu.Unlock()
			if err != nil {
				if firstErr == nil {
					firstErr = fmt.Errorf("compile %s: %v", lp.ImportPath, err)
				}
				return
			}
			res[lp.ImportPath] = &BCEResult{PkgPath: lp.ImportPath, Dir: lp.Dir, Files: files, Diags: d}
		}(i, lp, lang, cfgPath, files)
	}
	wg.Wait()
	if firstErr != nil {
		return nil, firstErr
	}
	return res, nil
}

func compileBCE(env []string, dir, pkgPath, lang, importcfg, outFile string, files []string) ([]BCEDiag, error) {
	args := []string{"tool", "compile", "-p", pkgPath, "-importcfg", importcfg, "-d=ssa/check_bce/debug=1", "-d=ssa/prove/debug=1", "-c=4", "-o", outFile}
	if lang != "" {
		args = append(args, "-lang="+lang)
	}
	args = append(args, files...)
	cmd := exec.Command("go", args...)
	cmd.Dir = dir
	cmd.Env = env
	outb, err := cmd.CombinedOutput()
	var diags []BCEDiag
	var other []string
	seen := map[BCEDiag]bool{}
	for _, ln := range strings.Split(string(outb), "\n") {
		ln = strings.TrimRight(ln, "\r")
		if ln == "" {
			continue
		}
		m := bceLine.FindStringSubmatch(ln)
		if m == nil {
			if proveNoise.MatchString(ln) && !strings.Contains(ln, "IsInBounds") && !strings.Contains(ln, "IsSliceInBounds") {
				continue
			}
			other = append(other, ln)
			continue
		}
		f := m[1]
		if !filepath.IsAbs(f) && !strings.HasPrefix(f, "<") {
			f = filepath.Join(dir, f)
		}
		l, _ := strconv.Atoi(m[2])
		c, _ := strconv.Atoi(m[3])
		d := BCEDiag{File: f, Line: l, Col: c, Kind: m[5], Verdict: m[4]}
		if !seen[d] {
			seen[d] = true
			diags = append(diags, d)
		}
	}
	if err != nil {
		return nil, fmt.Errorf("%v: %s", err, firstLines(strings.Join(other, "\n"), 5))
	}
	// "<autogenerated>:1: Found IsInBounds" style lines (no column) and anything else the compiler says are kept as unparsed
	var unparsed []string
	for _, o := range other {
		if strings.Contains(o, "Found IsInBounds") || strings.Contains(o, "Found IsSliceInBounds") {
			// position without column (autogenerated wrappers): record with Col 0 so that the caller sees it
			if i := strings.Index(o, ": Found "); i > 0 {
				pos := o[:i]
				kind := strings.TrimSuffix(strings.TrimPrefix(o[i+len(": Found "):], ""), ":")
				parts := strings.Split(pos, ":")
				l := 0
				if len(parts) >= 2 {
					l, _ = strconv.Atoi(parts[1])
				}
				d := BCEDiag{File: parts[0], Line: l, Col: 0, Kind: strings.TrimSpace(kind), Verdict: "Found"}
				if !seen[d] {
					seen[d] = true
					diags = append(diags, d)
				}
				continue
			}
		}
		unparsed = append(unparsed, o)
	}
	if len(unparsed) > 0 {
		return nil, fmt.Errorf("unexpected compiler output: %s", firstLines(strings.Join(unparsed, "\n"), 5))
	}
	sort.Slice(diags, func(i, j int) bool {
		a, b := diags[i], diags[j]
		if a.File != b.File {
			return a.File < b.File
		}
		if a.Line != b.Line {
			return a.Line < b.Line
		}
		if a.Col != b.Col {
			return a.Col < b.Col
		}
		if a.Kind != b.Kind {
			return a.Kind < b.Kind
		}
		return a.Verdict < b.Verdict
	})
	return diags, nil
}

func firstLines(s string, n int) string {
	lines := strings.Split(strings.TrimSpace(s), "\n")
	if len(lines) > n {
		lines = append(lines[:n], "...")
	}
	return strings.Join(lines, " | ")
}
