package webrtc

import (
	"crypto/ecdsa"
	"crypto/elliptic"
	"crypto/rand"
	"testing"
)

// Reproducer for the C39.R5 finding: SetConfiguration stores the caller's certificate slice itself, so a later
// write to that slice by the application changes the connection's (immutable) certificate without any call.
func TestReproC39SetConfigurationAliasesCallerSlice(t *testing.T) {
	mk := func() Certificate {
		sk, err := ecdsa.GenerateKey(elliptic.P256(), rand.Reader)
		if err != nil {
			t.Fatal(err)
		}
		c, err := GenerateCertificate(sk)
		if err != nil {
			t.Fatal(err)
		}
		return *c
	}
	c1, c2 := mk(), mk()
	pc, err := NewPeerConnection(Configuration{Certificates: []Certificate{c1}})
	if err != nil {
		t.Fatal(err)
	}
	defer pc.Close() //nolint
	req := []Certificate{c1}
	if err := pc.SetConfiguration(Configuration{Certificates: req}); err != nil {
		t.Fatalf("same certificate refused: %v", err)
	}
	req[0] = c2 // the application reuses its own slice
	if got := pc.GetConfiguration().Certificates[0]; !got.Equals(c1) {
		t.Errorf("the connection's certificate changed without a SetConfiguration call")
	}
	if err := pc.SetConfiguration(Configuration{Certificates: req}); err == nil {
		t.Errorf("SetConfiguration accepted a different certificate")
	}
}
