package mux

// Demonstration for C27 (drop into internal/mux): a datagram that arrives
// right after NewEndpoint returns is delivered BEFORE the datagrams that were
// queued while no endpoint existed, because the pending queue is flushed by a
// separate goroutine after the endpoint was already registered.

import (
	"net"
	"testing"
	"time"

	"github.com/pion/logging"
)

func TestC27PendingBeforeLater(t *testing.T) {
	overtaken := 0
	const rounds = 200
	for i := 0; i < rounds; i++ {
		ca, cb := net.Pipe()
		m := NewMux(Config{Conn: ca, BufferSize: 1500, LoggerFactory: logging.NewDefaultLoggerFactory()})
		if err := m.dispatch([]byte{20, 1}); err != nil { // queued: no endpoint yet
			t.Fatal(err)
		}
		e := m.NewEndpoint(MatchDTLS)
		if err := m.dispatch([]byte{20, 2}); err != nil { // arrives after the endpoint exists
			t.Fatal(err)
		}
		buf := make([]byte, 10)
		_ = e.SetReadDeadline(time.Now().Add(2 * time.Second))
		n, err := e.Read(buf)
		if err != nil || n != 2 {
			t.Fatalf("read: %v %d", err, n)
		}
		if buf[1] == 2 {
			overtaken++
		}
		_ = cb.Close()
		_ = m.Close()
	}
	if overtaken > 0 {
		t.Fatalf("in %d of %d rounds the later datagram was delivered before the queued one", overtaken, rounds)
	}
}
