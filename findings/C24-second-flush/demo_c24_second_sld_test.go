package webrtc

import (
	"sync/atomic"
	"testing"
	"time"

	"github.com/stretchr/testify/require"
)

// C24: the nil end-of-gathering marker is reported exactly once, however many SetLocalDescription calls follow.
func TestFindingC24NilMarkerOncePerGathering(t *testing.T) {
	for _, pool := range []uint8{0, 1} {
		pcOffer, err := NewPeerConnection(Configuration{ICECandidatePoolSize: pool})
		require.NoError(t, err)
		pcAnswer, err := NewPeerConnection(Configuration{})
		require.NoError(t, err)
		var nils atomic.Int32
		pcOffer.OnICECandidate(func(c *ICECandidate) {
			if c == nil {
				nils.Add(1)
			}
		})
		_, err = pcOffer.CreateDataChannel("d", nil)
		require.NoError(t, err)
		require.NoError(t, signalPair(pcOffer, pcAnswer))
		require.Eventually(t, func() bool { return nils.Load() >= 1 }, 10*time.Second, 20*time.Millisecond)
		require.Equal(t, int32(1), nils.Load(), "pool=%d after first negotiation", pool)
		// renegotiate: a second SetLocalDescription after gathering completed
		require.NoError(t, signalPair(pcOffer, pcAnswer))
		time.Sleep(200 * time.Millisecond)
		require.Equal(t, int32(1), nils.Load(), "pool=%d after second SetLocalDescription", pool)
		closePairNow(t, pcOffer, pcAnswer)
	}
}
