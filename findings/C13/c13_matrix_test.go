package triage

// Reproducer for the C13.R2 known findings (kept for the reader; no registered check runs it).
// Run: GOFLAGS=-mod=mod GOPROXY=off GOSUMDB=off GOTOOLCHAIN=local go1.26.8 test -v .   (go.mod replaces pion/webrtc by /repo)
//
// A synthetic offerer sends an offer with an explicit a=setup value (and optionally a=ice-lite);
// the pion answerer is configured with SettingEngine.SetAnsweringDTLSRole / SetLite.
// RFC 4145 §4.1: an offer setup:active must be answered passive, setup:passive must be answered active.

import (
	"fmt"
	"strings"
	"testing"

	"github.com/pion/webrtc/v4"
)

const c13OfferTmpl = `v=0
o=- 1 1 IN IP4 0.0.0.0
s=-
t=0 0
LITEa=fingerprint:sha-256 AA:AA:AA:AA:AA:AA:AA:AA:AA:AA:AA:AA:AA:AA:AA:AA:AA:AA:AA:AA:AA:AA:AA:AA:AA:AA:AA:AA:AA:AA:AA:AA
a=group:BUNDLE 0
m=audio 9 UDP/TLS/RTP/SAVPF 111
c=IN IP4 0.0.0.0
a=mid:0
a=ice-ufrag:abcd
a=ice-pwd:abcdefghijklmnopqrstuvwx
a=setup:SETUP
a=sendrecv
a=rtcp-mux
a=rtpmap:111 opus/48000/2
`

func c13Offer(setup string, lite bool) string {
	s := strings.ReplaceAll(c13OfferTmpl, "SETUP", setup)
	l := ""
	if lite {
		l = "a=ice-lite\n"
	}
	s = strings.ReplaceAll(s, "LITE", l)
	return strings.ReplaceAll(s, "\n", "\r\n")
}

func c13AnswerSetup(t *testing.T, role webrtc.DTLSRole, answererLite bool, offerSetup string, offererLite bool) string {
	t.Helper()
	se := webrtc.SettingEngine{}
	if role != 0 {
		if err := se.SetAnsweringDTLSRole(role); err != nil {
			t.Fatal(err)
		}
	}
	se.SetLite(answererLite)
	if answererLite {
		se.SetNetworkTypes([]webrtc.NetworkType{webrtc.NetworkTypeUDP4})
	}
	api := webrtc.NewAPI(webrtc.WithSettingEngine(se))
	pc, err := api.NewPeerConnection(webrtc.Configuration{})
	if err != nil {
		t.Fatal(err)
	}
	defer pc.Close()
	if err := pc.SetRemoteDescription(webrtc.SessionDescription{Type: webrtc.SDPTypeOffer, SDP: c13Offer(offerSetup, offererLite)}); err != nil {
		t.Fatal(err)
	}
	a, err := pc.CreateAnswer(nil)
	if err != nil {
		t.Fatal(err)
	}
	for _, l := range strings.Split(a.SDP, "\r\n") {
		if strings.HasPrefix(l, "a=setup:") {
			return strings.TrimPrefix(l, "a=setup:")
		}
	}
	return "(none)"
}

func TestC13AnswerSetupIsLegalResponse(t *testing.T) {
	roles := map[string]webrtc.DTLSRole{"unset": 0, "client": webrtc.DTLSRoleClient, "server": webrtc.DTLSRoleServer}
	for _, offererLite := range []bool{false, true} {
		for _, answererLite := range []bool{false, true} {
			for _, rn := range []string{"unset", "client", "server"} {
				for _, setup := range []string{"active", "passive"} {
					got := c13AnswerSetup(t, roles[rn], answererLite, setup, offererLite)
					want := map[string]string{"active": "passive", "passive": "active"}[setup]
					cell := fmt.Sprintf("offererLite=%v,answererLite=%v,answeringRole=%s,offerSetup=%s", offererLite, answererLite, rn, setup)
					if got != want {
						t.Errorf("%s: answer a=setup:%s, RFC 4145 requires %s (both endpoints now claim the %s side)", cell, got, want, got)
					} else {
						t.Logf("%s: answer a=setup:%s ok", cell, got)
					}
				}
			}
		}
	}
}
