// SPDX-FileCopyrightText: 2026 The Pion community <https://pion.ly>
// SPDX-License-Identifier: MIT

package oggwriter

import (
	"bytes"
	"errors"
	"io"
	"testing"

	"github.com/pion/rtp"
	"github.com/pion/webrtc/v4/pkg/media/oggreader"
)

// C33: the last page of every logical stream carries the end-of-stream flag (0x04),
// for seekable and non-seekable outputs alike.
func TestC33SingleTrackNonSeekableHasEOS(t *testing.T) {
	buf := &bytes.Buffer{}
	w, err := NewWith(buf, 48000, 2)
	if err != nil {
		t.Fatal(err)
	}
	for i := 0; i < 3; i++ {
		pkt := &rtp.Packet{Header: rtp.Header{Version: 2, PayloadType: 111, SequenceNumber: uint16(i), Timestamp: uint32(i * 960), SSRC: 1}, Payload: []byte{0x78, 0x01, 0x02, 0x03}}
		if err := w.WriteRTP(pkt); err != nil {
			t.Fatal(err)
		}
	}
	if err := w.Close(); err != nil {
		t.Fatal(err)
	}

	r, err := oggreader.NewWithOptions(bytes.NewReader(buf.Bytes()))
	if err != nil {
		t.Fatal(err)
	}
	var lastType byte
	pages := 0
	raw := buf.Bytes()
	off := 0
	for {
		payload, _, err := r.ParseNextPage()
		if errors.Is(err, io.EOF) {
			break
		}
		if err != nil {
			t.Fatal(err)
		}
		lastType = raw[off+5]
		segs := int(raw[off+26])
		off += 27 + segs + len(payload)
		pages++
	}
	if lastType&0x04 == 0 {
		t.Fatalf("%d pages written, the last page has header type %#x: no end-of-stream flag", pages, lastType)
	}
}
