package triage

import (
	"strings"
	"testing"

	"github.com/pion/webrtc/v4"
)

const c03Offer = `v=0
o=- 1 1 IN IP4 0.0.0.0
s=-
t=0 0
a=fingerprint:sha-256 AA:AA:AA:AA:AA:AA:AA:AA:AA:AA:AA:AA:AA:AA:AA:AA:AA:AA:AA:AA:AA:AA:AA:AA:AA:AA:AA:AA:AA:AA:AA:AA
a=group:BUNDLE 1
m=audio 9 UDP/TLS/RTP/SAVPF 111
c=IN IP4 0.0.0.0
a=mid:1
a=ice-ufrag:abcd
a=ice-pwd:abcdefghijklmnopqrstuvwx
a=setup:actpass
a=sendrecv
a=rtcp-mux
a=rtpmap:111 opus/48000/2
`

// Each case removes/corrupts one thing the remote description needs; the call
// is rejected, yet the signaling state has already moved and the pending
// remote description is set (C03 violated).
func TestC03PostCommitErrors(t *testing.T) {
	cases := map[string]string{
		"missing mid":         strings.Replace(c03Offer, "a=mid:1\n", "", 1),
		"missing ufrag":       strings.Replace(c03Offer, "a=ice-ufrag:abcd\n", "", 1),
		"missing fingerprint": strings.Replace(c03Offer, "a=fingerprint:sha-256 AA:AA:AA:AA:AA:AA:AA:AA:AA:AA:AA:AA:AA:AA:AA:AA:AA:AA:AA:AA:AA:AA:AA:AA:AA:AA:AA:AA:AA:AA:AA:AA\n", "", 1),
		"bad codec line":      strings.Replace(c03Offer, "a=rtpmap:111 opus/48000/2\n", "a=rtpmap:111 opus/notanumber/2\n", 1),
	}
	for name, sdp := range cases {
		pc, err := webrtc.NewPeerConnection(webrtc.Configuration{})
		if err != nil {
			t.Fatal(err)
		}
		err = pc.SetRemoteDescription(webrtc.SessionDescription{Type: webrtc.SDPTypeOffer, SDP: sdp})
		t.Logf("%-20s err=%v state=%s pendingRemote!=nil:%v", name, err, pc.SignalingState(), pc.PendingRemoteDescription() != nil)
		if err != nil && (pc.SignalingState() != webrtc.SignalingStateStable || pc.PendingRemoteDescription() != nil) {
			t.Errorf("%s: rejected call changed negotiation state", name)
		}
		pc.Close()
	}
}
