package triage

import (
	"testing"

	"github.com/pion/webrtc/v4"
)

// C02: every rollback is rejected on the pinned tree.
func TestC02RollbackRejected(t *testing.T) {
	newPC := func() *webrtc.PeerConnection {
		pc, err := webrtc.NewPeerConnection(webrtc.Configuration{})
		if err != nil {
			t.Fatal(err)
		}
		if _, err := pc.AddTransceiverFromKind(webrtc.RTPCodecTypeAudio); err != nil {
			t.Fatal(err)
		}
		return pc
	}
	try := func(name string, pc *webrtc.PeerConnection, local bool, sdp string) {
		before := pc.SignalingState()
		var err error
		d := webrtc.SessionDescription{Type: webrtc.SDPTypeRollback, SDP: sdp}
		if local {
			err = pc.SetLocalDescription(d)
		} else {
			err = pc.SetRemoteDescription(d)
		}
		t.Logf("%-40s from %-22s err=%v now=%s", name, before, err, pc.SignalingState())
		if err != nil || pc.SignalingState() != webrtc.SignalingStateStable {
			t.Errorf("%s: rollback from %s did not return to stable", name, before)
		}
	}

	// have-local-offer
	a := newPC()
	defer a.Close()
	offer, _ := a.CreateOffer(nil)
	if err := a.SetLocalDescription(offer); err != nil {
		t.Fatal(err)
	}
	try("SetLocal(rollback, empty SDP)", a, true, "")
	try("SetLocal(rollback, offer SDP)", a, true, offer.SDP)

	// have-remote-offer
	b := newPC()
	defer b.Close()
	if err := b.SetRemoteDescription(offer); err != nil {
		t.Fatal(err)
	}
	try("SetRemote(rollback, offer SDP)", b, false, offer.SDP)

	// have-local-pranswer
	ans, err := b.CreateAnswer(nil)
	if err != nil {
		t.Fatal(err)
	}
	pr := ans
	pr.Type = webrtc.SDPTypePranswer
	if err := b.SetLocalDescription(pr); err != nil {
		t.Fatal(err)
	}
	try("SetLocal(rollback) from pranswer", b, true, ans.SDP)

	// have-remote-pranswer
	if err := a.SetRemoteDescription(pr); err != nil {
		t.Fatal(err)
	}
	try("SetRemote(rollback) from pranswer", a, false, ans.SDP)
}
