// Reproducer for property C24 (each local ICE candidate once, then exactly one
// end-of-gathering marker). Not part of any check: it is the triage evidence for
// the finding reported by C24.R1.
//
// The interleaving is forced without touching the library: setState(Complete)
// synchronously invokes the OnStateChange handler, i.e. the handler runs on the
// gathering goroutine exactly in the window between the publication of the
// Complete state and the test of the candidate pool. The handler lets a second
// goroutine run the pool flush (what SetLocalDescription does) to completion
// and only then lets the gathering goroutine continue.

//go:build !js

package webrtc

import (
	"sync"
	"testing"
	"time"

	"github.com/stretchr/testify/require"
)

type c24Log struct {
	mu     sync.Mutex
	events []string
}

func (l *c24Log) add(c *ICECandidate) {
	l.mu.Lock()
	defer l.mu.Unlock()
	if c == nil {
		l.events = append(l.events, "nil")
	} else {
		l.events = append(l.events, "candidate")
	}
}

func (l *c24Log) snapshot() (events []string, nils int, candidateAfterNil bool) {
	l.mu.Lock()
	defer l.mu.Unlock()
	seenNil := false
	for _, e := range l.events {
		if e == "nil" {
			nils++
			seenNil = true
		} else if seenNil {
			candidateAfterNil = true
		}
	}
	return append([]string{}, l.events...), nils, candidateAfterNil
}

// ICEGatherer level: flushCandidates runs (on its own goroutine) between
// setState(Complete) and the pool test of the OnCandidate(nil) callback.
func TestC24ForcedScheduleTwoEndOfGatheringMarkers(t *testing.T) {
	se := SettingEngine{}
	se.SetIncludeLoopbackCandidate(true)
	gatherer, err := NewAPI(WithSettingEngine(se)).NewICEGatherer(ICEGatherOptions{ICECandidatePoolSize: 1})
	require.NoError(t, err)

	log := &c24Log{}
	gatherer.OnLocalCandidate(log.add)

	callbackDone := make(chan struct{})
	gatherer.OnStateChange(func(s ICEGathererState) {
		if s != ICEGathererStateComplete {
			return
		}
		flushed := make(chan struct{})
		go func() { // "SetLocalDescription" on another goroutine
			gatherer.flushCandidates()
			close(flushed)
		}()
		<-flushed
		// give the gathering goroutine time to finish its callback after we return
		go func() {
			time.Sleep(300 * time.Millisecond)
			close(callbackDone)
		}()
	})

	require.NoError(t, gatherer.Gather())
	select {
	case <-callbackDone:
	case <-time.After(10 * time.Second):
		require.Fail(t, "gathering did not complete")
	}
	require.NoError(t, gatherer.Close())

	events, nils, _ := log.snapshot()
	t.Logf("OnLocalCandidate events: %v", events)
	require.Equal(t, 1, nils, "exactly one nil end-of-gathering marker expected, events: %v", events)
}

// Same schedule through the public API only: the OnICEGatheringStateChange
// handler runs SetLocalDescription (on another goroutine, to completion) when
// the state becomes complete.
func TestC24PublicAPITwoEndOfGatheringMarkers(t *testing.T) {
	se := SettingEngine{}
	se.SetIncludeLoopbackCandidate(true)
	pc, err := NewAPI(WithSettingEngine(se)).NewPeerConnection(Configuration{ICECandidatePoolSize: 1})
	require.NoError(t, err)
	defer func() { require.NoError(t, pc.Close()) }()

	log := &c24Log{}
	pc.OnICECandidate(log.add)

	_, err = pc.CreateDataChannel("c24", nil)
	require.NoError(t, err)
	offer, err := pc.CreateOffer(nil)
	require.NoError(t, err)

	hooked := make(chan struct{})
	var once sync.Once
	pc.OnICEGatheringStateChange(func(s ICEGatheringState) {
		if s != ICEGatheringStateComplete {
			return
		}
		once.Do(func() {
			applied := make(chan error, 1)
			go func() { applied <- pc.SetLocalDescription(offer) }()
			if err := <-applied; err != nil {
				t.Errorf("SetLocalDescription: %v", err)
			}
			go func() {
				time.Sleep(300 * time.Millisecond)
				close(hooked)
			}()
		})
	})
	if pc.ICEGatheringState() == ICEGatheringStateComplete {
		t.Skip("gathering completed before the handler could be registered; schedule not exercised")
	}

	select {
	case <-hooked:
	case <-time.After(10 * time.Second):
		t.Skip("gathering state change not observed; schedule not exercised")
	}

	events, nils, _ := log.snapshot()
	t.Logf("OnICECandidate events: %v", events)
	require.Equal(t, 1, nils, "exactly one nil end-of-gathering marker expected, events: %v", events)
}
