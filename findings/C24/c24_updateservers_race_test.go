//go:build !js

package webrtc

import (
	"sync"
	"testing"

	"github.com/stretchr/testify/require"
)

// Side observation of C24.R2 (listed as not-judged there): updateServers reads
// iceCandidatePoolSize under g.lock only, flushCandidates writes it under
// candidatePoolLock. Run with -race.
func TestC24UpdateServersPoolSizeRace(t *testing.T) {
	g, err := NewAPI().NewICEGatherer(ICEGatherOptions{ICECandidatePoolSize: 1})
	require.NoError(t, err)
	require.NoError(t, g.createAgent())
	atomicStoreICEGathererState(&g.state, ICEGathererStateGathering)
	var wg sync.WaitGroup
	wg.Add(2)
	go func() { defer wg.Done(); _ = g.updateServers(nil, ICETransportPolicyAll) }()
	go func() { defer wg.Done(); g.flushCandidates() }()
	wg.Wait()
	require.NoError(t, g.Close())
}
