package triage

// Reproducer for the C08.R1 known findings (kept for the reader; no registered check runs it).
// Run: GOFLAGS=-mod=mod GOPROXY=off GOSUMDB=off GOTOOLCHAIN=local go1.26.8 test -v .   (go.mod replaces pion/webrtc by /repo)
//
// A synthetic remote peer offers one audio section, pion answers (its transceiver gets mid 0), then the
// remote re-offers the same section as sendonly. RFC 3264 §6.1: a sendonly offer must be answered
// recvonly or inactive. pion only adjusts an inactive transceiver, so a transceiver that is sendrecv
// or sendonly at that moment keeps its direction and the answer says sendrecv / sendonly.

import (
	"strings"
	"testing"

	"github.com/pion/webrtc/v4"
)

const c08OfferTmpl = `v=0
o=- 1 VERSION IN IP4 0.0.0.0
s=-
t=0 0
a=fingerprint:sha-256 AA:AA:AA:AA:AA:AA:AA:AA:AA:AA:AA:AA:AA:AA:AA:AA:AA:AA:AA:AA:AA:AA:AA:AA:AA:AA:AA:AA:AA:AA:AA:AA
a=group:BUNDLE 0
m=audio 9 UDP/TLS/RTP/SAVPF 111
c=IN IP4 0.0.0.0
a=mid:0
a=ice-ufrag:abcd
a=ice-pwd:abcdefghijklmnopqrstuvwx
a=setup:actpass
a=DIRECTION
a=rtcp-mux
a=rtpmap:111 opus/48000/2
`

func c08Offer(dir, ver string) webrtc.SessionDescription {
	s := strings.ReplaceAll(c08OfferTmpl, "DIRECTION", dir)
	s = strings.ReplaceAll(s, "VERSION", ver)
	return webrtc.SessionDescription{Type: webrtc.SDPTypeOffer, SDP: strings.ReplaceAll(s, "\n", "\r\n")}
}

func c08AnswerDirection(t *testing.T, sdp string) string {
	t.Helper()
	for _, l := range strings.Split(sdp, "\r\n") {
		switch l {
		case "a=sendrecv", "a=sendonly", "a=recvonly", "a=inactive":
			return strings.TrimPrefix(l, "a=")
		}
	}
	return "(none)"
}

// firstOffer decides the direction the local transceiver has when the sendonly re-offer arrives:
// sendrecv offer + local track -> local sendrecv; recvonly offer + local track -> local sendonly.
func c08Run(t *testing.T, firstOffer, wantLocal string) {
	pc, err := webrtc.NewPeerConnection(webrtc.Configuration{})
	if err != nil {
		t.Fatal(err)
	}
	defer pc.Close()
	tr, _ := webrtc.NewTrackLocalStaticSample(webrtc.RTPCodecCapability{MimeType: webrtc.MimeTypeOpus}, "a", "b")
	if _, err := pc.AddTrack(tr); err != nil {
		t.Fatal(err)
	}
	if err := pc.SetRemoteDescription(c08Offer(firstOffer, "1")); err != nil {
		t.Fatal(err)
	}
	a1, err := pc.CreateAnswer(nil)
	if err != nil {
		t.Fatal(err)
	}
	if got := c08AnswerDirection(t, a1.SDP); got != wantLocal {
		t.Fatalf("setup: first answer to %s is %s, expected %s", firstOffer, got, wantLocal)
	}
	if err := pc.SetLocalDescription(a1); err != nil {
		t.Fatal(err)
	}
	if d := pc.GetTransceivers()[0].Direction().String(); d != wantLocal {
		t.Fatalf("setup: local transceiver is %s, expected %s", d, wantLocal)
	}
	if err := pc.SetRemoteDescription(c08Offer("sendonly", "2")); err != nil {
		t.Fatal(err)
	}
	a2, err := pc.CreateAnswer(nil)
	if err != nil {
		t.Fatal(err)
	}
	got := c08AnswerDirection(t, a2.SDP)
	if got != "recvonly" && got != "inactive" {
		t.Errorf("cell offered=sendonly, local=bymid:%s: answer says a=%s; RFC 3264 §6.1 allows only recvonly or inactive", wantLocal, got)
	}
}

func TestC08SendonlyReofferOnSendrecv(t *testing.T) { c08Run(t, "sendrecv", "sendrecv") }
func TestC08SendonlyReofferOnSendonly(t *testing.T) { c08Run(t, "recvonly", "sendonly") }
