// SPDX-License-Identifier: MIT

package webrtc

import (
	"strings"
	"testing"

	"github.com/stretchr/testify/assert"
)

// C10: every generated m= line lists each payload type once.
// An RTX codec registered without its primary is removed by filterUnattachedRTX *in place*, on the
// MediaEngine's own slice (getCodecs passes getCodecsByKind's result without copying): the engine's
// list is left with a duplicated tail element, and the next offer lists a payload type twice.
func TestFindingC10UnattachedRTXCorruptsMediaEngine(t *testing.T) {
	m := &MediaEngine{}
	assert.NoError(t, m.RegisterCodec(RTPCodecParameters{
		RTPCodecCapability: RTPCodecCapability{MimeType: MimeTypeRTX, ClockRate: 90000, SDPFmtpLine: "apt=96"},
		PayloadType:        97,
	}, RTPCodecTypeVideo))
	assert.NoError(t, m.RegisterCodec(RTPCodecParameters{
		RTPCodecCapability: RTPCodecCapability{MimeType: MimeTypeVP8, ClockRate: 90000},
		PayloadType:        100,
	}, RTPCodecTypeVideo))
	pc, err := NewAPI(WithMediaEngine(m)).NewPeerConnection(Configuration{})
	assert.NoError(t, err)
	defer func() { assert.NoError(t, pc.Close()) }()
	_, err = pc.AddTransceiverFromKind(RTPCodecTypeVideo)
	assert.NoError(t, err)
	for i := 0; i < 2; i++ {
		offer, err := pc.CreateOffer(nil)
		assert.NoError(t, err)
		for _, line := range strings.Split(offer.SDP, "\r\n") {
			if strings.HasPrefix(line, "m=video") {
				seen := map[string]bool{}
				for _, pt := range strings.Fields(line)[3:] {
					assert.False(t, seen[pt], "offer %d lists payload type %s twice: %s", i+1, pt, line)
					seen[pt] = true
				}
			}
		}
	}
}
