package triage

// Reproducer for C06.R1 / C09.R4 (not part of any check): the mid of the
// application section added by a later offer is strconv.Itoa(len(mediaSections)),
// not a fresh mid. With remote mids "1" and "2" already in use, a local data
// channel followed by CreateOffer yields two m-sections with a=mid:2.
//
// Run: copy into a scratch module (see findings/README.md) and `go test -run TestC06 -v .`

import (
	"strings"
	"testing"

	"github.com/pion/webrtc/v4"
)

const c06Offer = `v=0
o=- 1 1 IN IP4 0.0.0.0
s=-
t=0 0
a=fingerprint:sha-256 AA:AA:AA:AA:AA:AA:AA:AA:AA:AA:AA:AA:AA:AA:AA:AA:AA:AA:AA:AA:AA:AA:AA:AA:AA:AA:AA:AA:AA:AA:AA:AA
a=group:BUNDLE 1 2
m=audio 9 UDP/TLS/RTP/SAVPF 111
c=IN IP4 0.0.0.0
a=mid:1
a=ice-ufrag:abcd
a=ice-pwd:abcdefghijklmnopqrstuvwx
a=setup:actpass
a=sendrecv
a=rtcp-mux
a=rtpmap:111 opus/48000/2
m=video 9 UDP/TLS/RTP/SAVPF 96
c=IN IP4 0.0.0.0
a=mid:2
a=ice-ufrag:abcd
a=ice-pwd:abcdefghijklmnopqrstuvwx
a=setup:actpass
a=sendrecv
a=rtcp-mux
a=rtpmap:96 VP8/90000
`

func c06Mids(sdp string) []string {
	var out []string
	for _, l := range strings.Split(strings.ReplaceAll(sdp, "\r\n", "\n"), "\n") {
		if strings.HasPrefix(l, "a=mid:") {
			out = append(out, strings.TrimPrefix(l, "a=mid:"))
		}
	}
	return out
}

func TestC06DataMidCollides(t *testing.T) {
	pc, err := webrtc.NewPeerConnection(webrtc.Configuration{})
	if err != nil {
		t.Fatal(err)
	}
	defer pc.Close()
	if err = pc.SetRemoteDescription(webrtc.SessionDescription{Type: webrtc.SDPTypeOffer, SDP: c06Offer}); err != nil {
		t.Fatal(err)
	}
	answer, err := pc.CreateAnswer(nil)
	if err != nil {
		t.Fatal(err)
	}
	t.Logf("answer mids: %v", c06Mids(answer.SDP))
	if err = pc.SetLocalDescription(answer); err != nil {
		t.Fatal(err)
	}
	if _, err = pc.CreateDataChannel("x", nil); err != nil {
		t.Fatal(err)
	}
	offer, err := pc.CreateOffer(nil)
	if err != nil {
		t.Fatal(err)
	}
	mids := c06Mids(offer.SDP)
	t.Logf("re-offer mids: %v", mids)
	seen := map[string]bool{}
	for _, m := range mids {
		if seen[m] {
			t.Errorf("mid %q appears on two m-sections of one offer (C06: mids must be unique; C09: a new section must not reuse an earlier mid)", m)
		}
		seen[m] = true
	}
}
