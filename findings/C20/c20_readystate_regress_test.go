// SPDX-License-Identifier: MIT

//go:build !js

// Triage reproducer for property C20 (not part of any check).
// Copy into a scratch worktree of /repo (package webrtc, next to datachannel.go) and run
//   go test -vet=off -count=1 -run 'TestC20' -v .
//
// Schedule (forced with the public API only): SCTPTransport.acceptDataChannels
// registers a remote-created channel (onDataChannel), runs the application's
// OnDataChannel handler synchronously, and only then calls handleOpen, whose
// setReadyState(open) is a blind store. The handler below parks until the test
// has called PeerConnection.Close(), which stores 'closed' into every
// registered channel (W3C close step 5). When the handler returns, handleOpen
// overwrites 'closed' with 'open'.

package webrtc

import (
	"sync/atomic"
	"testing"
	"time"
)

func c20Pair(t *testing.T, detach bool) (*PeerConnection, *PeerConnection) {
	t.Helper()
	se := SettingEngine{}
	if detach {
		se.DetachDataChannels()
	}
	api := NewAPI(WithSettingEngine(se))
	a, err := api.NewPeerConnection(Configuration{})
	if err != nil {
		t.Fatal(err)
	}
	b, err := api.NewPeerConnection(Configuration{})
	if err != nil {
		t.Fatal(err)
	}
	return a, b
}

func c20Run(t *testing.T, detach bool) (seq []DataChannelState, final DataChannelState, openFired bool) {
	t.Helper()
	offerPC, answerPC := c20Pair(t, detach)
	defer func() { _ = offerPC.Close(); _ = answerPC.Close() }()

	inHandler := make(chan *DataChannel, 1)
	release := make(chan struct{})
	var opened atomic.Bool
	answerPC.OnDataChannel(func(d *DataChannel) {
		d.OnOpen(func() { opened.Store(true) })
		inHandler <- d
		<-release // park the accept loop between onDataChannel() and handleOpen()
	})
	if _, err := offerPC.CreateDataChannel("c20", nil); err != nil {
		t.Fatal(err)
	}
	if err := signalPair(offerPC, answerPC); err != nil {
		t.Fatal(err)
	}
	var d *DataChannel
	select {
	case d = <-inHandler:
	case <-time.After(20 * time.Second):
		t.Fatal("remote data channel never announced")
	}
	seq = append(seq, d.ReadyState())
	if err := answerPC.Close(); err != nil { // stores 'closed' into d
		t.Logf("close: %v", err)
	}
	seq = append(seq, d.ReadyState())

	// observer: spin on ReadyState and record every change
	stop := make(chan struct{})
	obsDone := make(chan []DataChannelState, 1)
	go func() {
		last := seq[len(seq)-1]
		var got []DataChannelState
		for {
			select {
			case <-stop:
				obsDone <- got
				return
			default:
			}
			if s := d.ReadyState(); s != last {
				got = append(got, s)
				last = s
			}
		}
	}()
	close(release) // handleOpen now runs: setReadyState(open)
	time.Sleep(1500 * time.Millisecond)
	close(stop)
	seq = append(seq, (<-obsDone)...)
	return seq, d.ReadyState(), opened.Load()
}

// Deterministic: with detached data channels no read loop exists, so nothing
// ever stores 'closed' again: the channel of a closed PeerConnection stays 'open'.
func TestC20ReadyStateRegressesAfterClose_Detached(t *testing.T) {
	seq, final, _ := c20Run(t, true)
	t.Logf("observed readyState sequence: %v, final %v", seq, final)
	if len(seq) < 2 || seq[1] != DataChannelStateClosed {
		t.Fatalf("precondition failed: PeerConnection.Close did not store closed: %v", seq)
	}
	if final != DataChannelStateClosed {
		t.Fatalf("readyState moved backwards: %v, final state %v on a closed PeerConnection", seq, final)
	}
}

// Default (read loop) mode: closed -> open -> closed; the transient 'open' is
// seen by the spinning observer and/or by the OnOpen handler firing after close.
func TestC20ReadyStateRegressesAfterClose_ReadLoop(t *testing.T) {
	seq, final, openFired := c20Run(t, false)
	t.Logf("observed readyState sequence: %v, final %v, OnOpen fired after Close: %v", seq, final, openFired)
	for i := 1; i < len(seq); i++ {
		if seq[i] < seq[i-1] {
			t.Fatalf("readyState moved backwards: %v", seq)
		}
	}
}
