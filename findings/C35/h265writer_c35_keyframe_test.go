// SPDX-FileCopyrightText: 2026 The Pion community <https://pion.ly>
// SPDX-License-Identifier: MIT

package h265writer

import (
	"bytes"
	"testing"

	"github.com/pion/rtp"
)

func c35Write(t *testing.T, payloads ...[]byte) int {
	t.Helper()
	buf := &bytes.Buffer{}
	w := NewWith(buf)
	for i, p := range payloads {
		if err := w.WriteRTP(&rtp.Packet{Header: rtp.Header{Version: 2, SequenceNumber: uint16(i)}, Payload: p}); err != nil {
			t.Fatal(err)
		}
	}

	return buf.Len()
}

// RFC 7798 §4.4.3: the FU header is S|E|FuType(6 bits). A fragmented IDR_W_RADL (type 19) as the first
// unit of the stream must open the keyframe gate.
func TestC35H265FragmentedIDRStartsTheOutput(t *testing.T) {
	start := []byte{49 << 1, 0x01, 0x80 | 19, 0xaf, 0x01, 0x02}
	end := []byte{49 << 1, 0x01, 0x40 | 19, 0x03, 0x04}
	if isKeyFrame(start) {
		t.Log("start fragment recognised")
	} else {
		t.Errorf("isKeyFrame(FU start of IDR_W_RADL) = false")
	}
	if n := c35Write(t, start, end); n == 0 {
		t.Errorf("fragmented IDR as first unit: nothing written")
	}
}

// ... and a fragmented non-keyframe unit must not open it: FuType 39 (prefix SEI) is mistaken for type 19.
func TestC35H265FragmentedSEIDoesNotStartTheOutput(t *testing.T) {
	start := []byte{49 << 1, 0x01, 0x80 | 39, 0x01, 0x05}
	end := []byte{49 << 1, 0x01, 0x40 | 39, 0x06, 0x80}
	if isKeyFrame(start) {
		t.Errorf("isKeyFrame(FU start of a prefix SEI) = true")
	}
	if n := c35Write(t, start, end); n != 0 {
		t.Errorf("fragmented SEI as first unit: %d bytes written before any keyframe", n)
	}
}
