// SPDX-FileCopyrightText: 2026 The Pion community <https://pion.ly>
// SPDX-License-Identifier: MIT

package h264writer

import (
	"bytes"
	"testing"

	"github.com/pion/rtp"
)

// C35: "A keyframe here means the first SPS or IDR for H.264". A stream whose first unit is an IDR
// (single NAL, first unit of a STAP-A, or FU-A start fragment) must be written from that unit on.
func TestC35H264IDRStartsTheOutput(t *testing.T) {
	idr := []byte{0x65, 0x88, 0x84, 0x00, 0x10} // nal_unit_type 5
	cases := map[string][][]byte{
		"single-nal-idr": {idr},
		"stap-a-idr":     {append([]byte{0x78, 0x00, byte(len(idr))}, idr...)},
		"fu-a-idr":       {{0x7c, 0x85, 0x88, 0x84}, {0x7c, 0x45, 0x00, 0x10}},
		"fu-a-sps":       {{0x7c, 0x87, 0x42, 0x00}, {0x7c, 0x47, 0x1f, 0x8c}},
	}
	for name, payloads := range cases {
		buf := &bytes.Buffer{}
		w := NewWith(buf)
		for i, p := range payloads {
			if err := w.WriteRTP(&rtp.Packet{Header: rtp.Header{Version: 2, SequenceNumber: uint16(i)}, Payload: p}); err != nil {
				t.Fatalf("%s: %v", name, err)
			}
		}
		if buf.Len() == 0 {
			t.Errorf("%s: nothing written although the stream starts with a keyframe unit (isKeyFrame(first packet)=%v)", name, isKeyFrame(payloads[0]))
		}
	}
}
