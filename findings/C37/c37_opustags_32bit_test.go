// SPDX-FileCopyrightText: 2026 The Pion community <https://pion.ly>
// SPDX-License-Identifier: MIT

package oggreader

// Triage reproducer for the C37 findings on 32-bit platforms (GOARCH=386, arm). Not part of any check.
// Copy into pkg/media/oggreader of a scratch worktree and run
//   GOARCH=386 go test -vet=off -count=1 -run TestC37OpusTags32Bit ./pkg/media/oggreader
//
// ParseOpusTags converts 32-bit length fields with int(x). Where int is 32 bits wide a value >= 2^31
// becomes negative (or makes pos+len wrap around), slips through the range guards and reaches a slice
// expression or make with a negative operand: the parser panics instead of returning an error.

import (
	"encoding/binary"
	"testing"
)

func c37Tags(vendorLen uint32, vendor string, count uint32, comments ...[]byte) []byte {
	b := []byte("OpusTags")
	b = binary.LittleEndian.AppendUint32(b, vendorLen)
	b = append(b, vendor...)
	b = binary.LittleEndian.AppendUint32(b, count)
	for _, c := range comments {
		b = append(b, c...)
	}
	return b
}

func c37MustNotPanic(t *testing.T, name string, payload []byte) {
	t.Helper()
	defer func() {
		if r := recover(); r != nil {
			t.Errorf("%s: ParseOpusTags panicked instead of returning an error: %v", name, r)
		}
	}()
	if _, err := ParseOpusTags(payload); err == nil {
		t.Logf("%s: accepted (no error)", name)
	}
}

func TestC37OpusTags32Bit(t *testing.T) {
	if ^uint(0)>>32 != 0 {
		t.Skip("int is 64 bits wide here; run with GOARCH=386")
	}
	// (1) vendor length 0xFFFFFFFF -> int(-1): payload[12:11]
	c37MustNotPanic(t, "vendor length 0xFFFFFFFF", c37Tags(0xFFFFFFFF, "", 0, []byte{0, 0, 0, 0}))
	// (2) comment count 0x80000000 -> negative: make([]UserComment, negative)
	c37MustNotPanic(t, "comment count 0x80000000", c37Tags(0, "", 0x80000000))
	// (3) comment length 0x7FFFFFFF: pos+commentLen wraps around -> payload[20:negative]
	comment := binary.LittleEndian.AppendUint32(nil, 0x7FFFFFFF)
	c37MustNotPanic(t, "comment length 0x7FFFFFFF", c37Tags(0, "", 1, comment, []byte("a=b")))
}
