// SPDX-FileCopyrightText: 2026 The Pion community <https://pion.ly>
// SPDX-License-Identifier: MIT

package rtpdump

import (
	"bytes"
	"net"
	"testing"
	"time"
)

func c36File(t *testing.T, records ...[]byte) *bytes.Buffer {
	t.Helper()
	buf := &bytes.Buffer{}
	if _, err := NewWriter(buf, Header{Start: time.Unix(9, 0).UTC(), Source: net.IPv4(2, 2, 2, 2), Port: 2222}); err != nil {
		t.Fatal(err)
	}
	for _, r := range records {
		buf.Write(r)
	}

	return buf
}

// C36.R1: a record whose length field is smaller than the 8-byte record header must be rejected.
func TestC36ReaderRejectsShortRecordLength(t *testing.T) {
	for length := 1; length < 8; length++ {
		rec := []byte{0x00, byte(length), 0x00, 0x00, 0x00, 0x00, 0x00, 0x00}
		// enough trailing bytes so that a wrapped length (65536+length-8) can be satisfied
		buf := c36File(t, rec, make([]byte, 70000))
		r, _, err := NewReader(buf)
		if err != nil {
			t.Fatal(err)
		}
		pkt, err := r.Next()
		if err == nil {
			t.Errorf("record length %d: accepted, payload of %d bytes returned", length, len(pkt.Payload))
		}
	}
}

// C36.R2: payloads that do not fit the 16-bit length field must be refused, not written truncated.
func TestC36WriterRefusesOversizedPayload(t *testing.T) {
	for _, n := range []int{65527, 65528, 65536, 70000} {
		buf := &bytes.Buffer{}
		w, err := NewWriter(buf, Header{Start: time.Unix(9, 0).UTC(), Source: net.IPv4(2, 2, 2, 2), Port: 2222})
		if err != nil {
			t.Fatal(err)
		}
		err = w.WritePacket(Packet{Offset: time.Millisecond, Payload: make([]byte, n)})
		if n <= 65527 {
			if err != nil {
				t.Errorf("payload of %d bytes refused: %v", n, err)
			}

			continue
		}
		if err == nil {
			r, _, rerr := NewReader(buf)
			if rerr != nil {
				t.Fatal(rerr)
			}
			pkt, rerr := r.Next()
			t.Errorf("payload of %d bytes written without error; read back as %d bytes (err %v)", n, len(pkt.Payload), rerr)
		}
	}
}

// C36.R2 (recorded, not repaired): sources that are not IPv4 produce a file the reader rejects.
func TestC36WriterNonIPv4Source(t *testing.T) {
	buf := &bytes.Buffer{}
	_, err := NewWriter(buf, Header{Start: time.Unix(9, 0).UTC(), Source: net.ParseIP("2001:db8::1"), Port: 2222})
	if err != nil {
		return // refused: fine
	}
	if _, _, rerr := NewReader(bytes.NewReader(buf.Bytes())); rerr != nil {
		t.Errorf("IPv6 source written without error, preamble %q, and the reader rejects the file: %v", bytes.SplitN(buf.Bytes(), []byte("\n"), 2)[0], rerr)
	}
}

// C36.R2 (recorded, not repaired): start times outside 1970..2106 wrap silently.
func TestC36WriterStartOutOfRange(t *testing.T) {
	for _, start := range []time.Time{time.Date(2200, 1, 1, 0, 0, 0, 0, time.UTC), time.Date(1960, 1, 1, 0, 0, 0, 0, time.UTC)} {
		buf := &bytes.Buffer{}
		_, err := NewWriter(buf, Header{Start: start, Source: net.IPv4(2, 2, 2, 2), Port: 2222})
		if err != nil {
			continue // refused: fine
		}
		_, hdr, rerr := NewReader(bytes.NewReader(buf.Bytes()))
		if rerr != nil {
			t.Fatal(rerr)
		}
		if !hdr.Start.Equal(start) {
			t.Errorf("start %v written without error, read back as %v", start, hdr.Start)
		}
	}
}

// C36.R2 (recorded, not repaired): offsets that do not fit 32-bit milliseconds wrap silently.
func TestC36WriterOffsetOutOfRange(t *testing.T) {
	for _, off := range []time.Duration{-time.Second, 50 * 24 * time.Hour} {
		buf := &bytes.Buffer{}
		w, err := NewWriter(buf, Header{Start: time.Unix(9, 0).UTC(), Source: net.IPv4(2, 2, 2, 2), Port: 2222})
		if err != nil {
			t.Fatal(err)
		}
		if err = w.WritePacket(Packet{Offset: off, Payload: []byte{1, 2, 3}}); err != nil {
			continue // refused: fine
		}
		r, _, rerr := NewReader(bytes.NewReader(buf.Bytes()))
		if rerr != nil {
			t.Fatal(rerr)
		}
		pkt, rerr := r.Next()
		if rerr != nil {
			t.Fatal(rerr)
		}
		if pkt.Offset != off {
			t.Errorf("offset %v written without error, read back as %v", off, pkt.Offset)
		}
	}
}
