// SPDX-License-Identifier: MIT

//go:build !js

package webrtc

import (
	"sync"
	"testing"
	"time"

	"github.com/pion/rtp"
	"github.com/pion/webrtc/v4/pkg/media"
)

// Triage cross-check for C40 (not part of the check): the property's concurrent program
// (K calls from many goroutines, one serialized signaling exchange) under the race detector.
func TestC40KProgramRace(t *testing.T) {
	for round := 0; round < 6; round++ {
		offerPC, err := NewPeerConnection(Configuration{})
		if err != nil {
			t.Fatal(err)
		}
		answerPC, err := NewPeerConnection(Configuration{})
		if err != nil {
			t.Fatal(err)
		}
		rtpTrack, _ := NewTrackLocalStaticRTP(RTPCodecCapability{MimeType: MimeTypeVP8}, "v", "s")
		sampleTrack, _ := NewTrackLocalStaticSample(RTPCodecCapability{MimeType: MimeTypeOpus}, "a", "s")
		if _, err = offerPC.AddTrack(rtpTrack); err != nil {
			t.Fatal(err)
		}
		if _, err = offerPC.CreateDataChannel("init", nil); err != nil {
			t.Fatal(err)
		}

		stop := make(chan struct{})
		var wg sync.WaitGroup
		worker := func(f func(i int)) {
			wg.Add(1)
			go func() {
				defer wg.Done()
				for i := 0; ; i++ {
					select {
					case <-stop:
						return
					default:
					}
					f(i)
				}
			}()
		}
		for _, pc := range []*PeerConnection{offerPC, answerPC} {
			pc := pc
			worker(func(i int) {
				tr, _ := NewTrackLocalStaticSample(RTPCodecCapability{MimeType: MimeTypeVP8}, "x", "y")
				if s, err := pc.AddTrack(tr); err == nil && i%2 == 0 {
					_ = pc.RemoveTrack(s)
				}
				time.Sleep(time.Millisecond)
			})
			worker(func(i int) {
				_, _ = pc.AddTransceiverFromKind(RTPCodecTypeAudio)
				time.Sleep(2 * time.Millisecond)
			})
			worker(func(i int) {
				_, _ = pc.CreateDataChannel("dc", nil)
				time.Sleep(2 * time.Millisecond)
			})
			worker(func(i int) {
				_ = pc.GetTransceivers()
				_ = pc.GetSenders()
				_ = pc.GetReceivers()
			})
			worker(func(i int) {
				_ = pc.SignalingState()
				_ = pc.ICEConnectionState()
				_ = pc.ICEGatheringState()
				_ = pc.ConnectionState()
				_ = pc.LocalDescription()
				_ = pc.RemoteDescription()
				_ = pc.CurrentLocalDescription()
				_ = pc.PendingLocalDescription()
				_ = pc.CurrentRemoteDescription()
				_ = pc.PendingRemoteDescription()
				_ = pc.CanTrickleICECandidates()
				_ = pc.SCTP()
			})
			worker(func(i int) { _ = pc.GetStats(); time.Sleep(time.Millisecond) })
		}
		worker(func(i int) {
			_ = rtpTrack.WriteRTP(&rtp.Packet{Header: rtp.Header{Version: 2, SequenceNumber: uint16(i)}, Payload: []byte{1, 2, 3}})
		})
		worker(func(i int) {
			_ = sampleTrack.WriteSample(media.Sample{Data: []byte{1, 2, 3}, Duration: time.Millisecond})
		})

		// serialized signaling exchange on one goroutine
		for k := 0; k < 3; k++ {
			offer, err := offerPC.CreateOffer(nil)
			if err != nil {
				break
			}
			if err = offerPC.SetLocalDescription(offer); err != nil {
				break
			}
			if err = answerPC.SetRemoteDescription(offer); err != nil {
				break
			}
			answer, err := answerPC.CreateAnswer(nil)
			if err != nil {
				break
			}
			if err = answerPC.SetLocalDescription(answer); err != nil {
				break
			}
			if err = offerPC.SetRemoteDescription(answer); err != nil {
				break
			}
			time.Sleep(20 * time.Millisecond)
		}
		// Close from several goroutines while everything else is still running
		var cw sync.WaitGroup
		for i := 0; i < 3; i++ {
			cw.Add(2)
			go func() { defer cw.Done(); _ = offerPC.Close() }()
			go func() { defer cw.Done(); _ = answerPC.Close() }()
		}
		done := make(chan struct{})
		go func() { cw.Wait(); close(done) }()
		select {
		case <-done:
		case <-time.After(30 * time.Second):
			t.Fatal("Close did not return within 30s (deadlock?)")
		}
		close(stop)
		wg.Wait()
	}
}
