// SPDX-License-Identifier: MIT

//go:build !js

package webrtc

import (
	"testing"
	"time"
)

// C40.R3 reviewed entry (outside the property's call set K): RTPSender.SetReadDeadlineSimulcast holds
// r.mu.RLock while srtpWriterFuture.init(false) waits for SRTP to become ready / the sender to stop.
// Before the transports are up that wait does not end, and the next CreateOffer (setNegotiated needs
// r.mu.Lock while pc.mu is held) stalls behind the reader - and with it every call that needs pc.mu.
func TestC40SetReadDeadlineSimulcastBlocksSignaling(t *testing.T) {
	pc, err := NewPeerConnection(Configuration{})
	if err != nil {
		t.Fatal(err)
	}
	remote, err := NewPeerConnection(Configuration{})
	if err != nil {
		t.Fatal(err)
	}
	defer func() { go func() { _ = remote.Close() }() }()
	track, err := NewTrackLocalStaticSample(RTPCodecCapability{MimeType: MimeTypeVP8}, "v", "s")
	if err != nil {
		t.Fatal(err)
	}
	sender, err := pc.AddTrack(track)
	if err != nil {
		t.Fatal(err)
	}
	// offer/answer without exchanging candidates: Send() is called on the sender, SRTP never becomes ready
	offer, err := pc.CreateOffer(nil)
	if err != nil {
		t.Fatal(err)
	}
	if err = pc.SetLocalDescription(offer); err != nil {
		t.Fatal(err)
	}
	if err = remote.SetRemoteDescription(offer); err != nil {
		t.Fatal(err)
	}
	answer, err := remote.CreateAnswer(nil)
	if err != nil {
		t.Fatal(err)
	}
	if err = remote.SetLocalDescription(answer); err != nil {
		t.Fatal(err)
	}
	if err = pc.SetRemoteDescription(answer); err != nil {
		t.Fatal(err)
	}
	for i := 0; i < 100 && !sender.hasSent(); i++ {
		time.Sleep(20 * time.Millisecond)
	}
	if !sender.hasSent() {
		t.Skip("sender was not started")
	}
	go func() { _ = sender.SetReadDeadlineSimulcast(time.Now().Add(time.Hour), "") }()
	time.Sleep(200 * time.Millisecond)

	offered := make(chan struct{})
	go func() {
		_, _ = pc.CreateOffer(nil)
		close(offered)
	}()
	select {
	case <-offered:
		t.Log("CreateOffer returned (no stall)")
	case <-time.After(3 * time.Second):
		t.Error("CreateOffer did not return within 3s: it waits for RTPSender.mu behind SetReadDeadlineSimulcast, holding pc.mu")
	}
	got := make(chan struct{})
	go func() { _ = pc.GetTransceivers(); close(got) }()
	select {
	case <-got:
	case <-time.After(2 * time.Second):
		t.Error("GetTransceivers did not return within 2s: pc.mu is held by the stalled CreateOffer")
	}
	// unblock: stopping the sender closes stopCalled... but Stop itself needs r.mu.Lock, queued behind the reader? no:
	// Stop's Lock is queued after the blocked reader releases; the reader is released only by stopCalled/srtpReady.
}
