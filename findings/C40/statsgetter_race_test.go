// SPDX-License-Identifier: MIT

//go:build !js

package webrtc

import (
	"sync"
	"testing"
)

// C40.R2 finding: PeerConnection.statsGetter is cleared by close() and read by GetStats()
// with no common lock. GetStats and Close are both in the property's concurrent call set.
// Run with: go test -race -run TestC40StatsGetterRace -count=1 .
func TestC40StatsGetterRace(t *testing.T) {
	for i := 0; i < 20; i++ {
		pc, err := NewPeerConnection(Configuration{})
		if err != nil {
			t.Fatal(err)
		}
		// a receiver is needed: GetStats evaluates pc.statsGetter once per receiver
		if _, err = pc.AddTransceiverFromKind(RTPCodecTypeVideo); err != nil {
			t.Fatal(err)
		}
		var wg sync.WaitGroup
		wg.Add(2)
		go func() {
			defer wg.Done()
			for j := 0; j < 50; j++ {
				_ = pc.GetStats()
			}
		}()
		go func() {
			defer wg.Done()
			_ = pc.Close()
		}()
		wg.Wait()
	}
}
