// SPDX-FileCopyrightText: 2026 The Pion community <https://pion.ly>
// SPDX-License-Identifier: MIT

//go:build !js

package webrtc

// Triage reproducer for C30.R1 | (*PeerConnection).startRTPReceivers | incomingTrack.ssrcs[0] | index:idx<len.
// Not part of any check. Copy into a scratch worktree of /repo (package webrtc) and run
//   go test -vet=off -count=1 -run TestC30PlanBRidOnlyTrack .
//
// A Plan-B answerer whose MediaEngine has no video codec receives an offer whose video section
// announces a simulcast track by rid only (a=rid / a=simulcast / a=msid, no a=ssrc). trackDetailsFromSDP
// returns a track with rids and an EMPTY ssrcs slice. startRTPReceivers (the work the connection does in
// the background once the transports are up) finds no transceiver for it, takes the Plan-B branch,
// AddTransceiverFromKind fails with ErrNoCodecsAvailable, and the warning it logs indexes
// incomingTrack.ssrcs[0]: index out of range [0] with length 0 -> the ops goroutine panics and the
// process dies.

import (
	"testing"

	"github.com/stretchr/testify/require"
)

const c30RidOnlyPlanBOffer = `v=0
o=- 4596489990601351948 2 IN IP4 127.0.0.1
s=-
t=0 0
a=group:BUNDLE audio video
a=msid-semantic: WMS stream
m=audio 9 UDP/TLS/RTP/SAVPF 111
c=IN IP4 0.0.0.0
a=ice-ufrag:someufrag
a=ice-pwd:somepwdsomepwdsomepwdsomepwd
a=fingerprint:sha-256 F7:BF:B4:42:5B:44:C0:B9:49:70:6D:26:D7:3E:E6:08:B1:5B:25:2E:32:88:50:B6:3C:BE:4E:18:A7:2C:85:7C
a=setup:actpass
a=mid:audio
a=sendrecv
a=rtcp-mux
a=rtpmap:111 opus/48000/2
m=video 9 UDP/TLS/RTP/SAVPF 96
c=IN IP4 0.0.0.0
a=ice-ufrag:someufrag
a=ice-pwd:somepwdsomepwdsomepwdsomepwd
a=fingerprint:sha-256 F7:BF:B4:42:5B:44:C0:B9:49:70:6D:26:D7:3E:E6:08:B1:5B:25:2E:32:88:50:B6:3C:BE:4E:18:A7:2C:85:7C
a=setup:actpass
a=mid:video
a=sendonly
a=rtcp-mux
a=rtpmap:96 VP8/90000
a=msid:stream track
a=rid:q send
a=simulcast:send q
`

func TestC30PlanBRidOnlyTrack(t *testing.T) {
	me := &MediaEngine{}
	require.NoError(t, me.RegisterCodec(RTPCodecParameters{
		RTPCodecCapability: RTPCodecCapability{MimeType: MimeTypeOpus, ClockRate: 48000, Channels: 2},
		PayloadType:        111,
	}, RTPCodecTypeAudio))

	pc, err := NewAPI(WithMediaEngine(me)).NewPeerConnection(Configuration{SDPSemantics: SDPSemanticsPlanB})
	require.NoError(t, err)
	defer func() { _ = pc.Close() }()

	offer := SessionDescription{Type: SDPTypeOffer, SDP: c30RidOnlyPlanBOffer}
	// the public entry point accepts the description
	require.NoError(t, pc.SetRemoteDescription(offer))

	remote := pc.RemoteDescription()
	require.NotNil(t, remote)
	tracks := trackDetailsFromSDP(pc.log, remote.parsed)
	require.Len(t, tracks, 1)
	require.Empty(t, tracks[0].ssrcs, "rid-only track has no ssrcs")

	// what pc.startRTP runs on the operations goroutine once ICE/DTLS are up
	require.NotPanics(t, func() {
		pc.startRTPReceivers(remote, pc.GetTransceivers())
	}, "a remote description must not be able to crash the background work")
}
