// SPDX-License-Identifier: MIT

//go:build !js

package webrtc

import (
	"net"
	"sync"
	"testing"
	"time"
)

// C24: the nil end-of-gathering marker must be reported exactly once, also when gathering
// completes while SetLocalDescription is still delivering the pooled candidates.
//
// Schedule forced by the test:
//  1. pool size 1, gathering is kept open by a STUN server that never answers
//     (host candidates are pooled, srflx gathering waits for the STUN gather timeout);
//  2. SetLocalDescription flushes the pool; the OnICECandidate handler blocks inside the
//     first pooled candidate until the gatherer's own nil callback has been seen;
//  3. the flush resumes.
//
// Exactly one nil must have been reported in total.
func TestFindingC24NoCandidateAfterNil(t *testing.T) {
	const attempts = 4

	for attempt := 1; attempt <= attempts; attempt++ {
		arranged, nils := findingC24Order(t)
		if !arranged {
			t.Logf("attempt %d: gathering had already completed before the flush, retrying", attempt)

			continue
		}
		if nils != 1 {
			t.Fatalf("OnICECandidate(nil) reported %d times, want exactly 1", nils)
		}

		return
	}

	t.Skip("could not keep gathering open until SetLocalDescription (machine too slow)")
}

func findingC24Order(t *testing.T) (arranged bool, nils int) {
	t.Helper()

	// A "STUN server" that never answers keeps the gathering phase open.
	blackhole, err := net.ListenPacket("udp4", "127.0.0.1:0")
	if err != nil {
		t.Fatal(err)
	}
	defer blackhole.Close() //nolint:errcheck

	se := SettingEngine{}
	se.SetIncludeLoopbackCandidate(true)
	se.SetNetworkTypes([]NetworkType{NetworkTypeUDP4})
	se.SetSTUNGatherTimeout(6 * time.Second)

	pc, err := NewAPI(WithSettingEngine(se)).NewPeerConnection(Configuration{
		ICECandidatePoolSize: 1,
		ICEServers:           []ICEServer{{URLs: []string{"stun:" + blackhole.LocalAddr().String()}}},
	})
	if err != nil {
		t.Fatal(err)
	}
	defer pc.Close() //nolint:errcheck

	if _, err = pc.CreateDataChannel("demo", nil); err != nil {
		t.Fatal(err)
	}

	var (
		mu       sync.Mutex
		nilCount int
		candSeen int
		nilSeen  = make(chan struct{})
		afterNil int
	)
	pc.OnICECandidate(func(c *ICECandidate) {
		mu.Lock()
		first := false
		if c == nil {
			nilCount++
			if nilCount == 1 {
				close(nilSeen)
			}
		} else {
			candSeen++
			first = candSeen == 1
			if nilCount > 0 {
				afterNil++
			}
		}
		mu.Unlock()

		if first {
			// Hold the flush inside its first pooled candidate until gathering has completed
			// and the gatherer has reported the nil marker itself.
			select {
			case <-nilSeen:
			case <-time.After(20 * time.Second):
			}
		}
	})

	// Wait until the host candidates sit in the pool (length stable for a moment).
	g := pc.iceGatherer
	poolLen := func() int {
		g.candidatePoolLock.Lock()
		defer g.candidatePoolLock.Unlock()

		return len(g.candidatePool)
	}
	deadline := time.Now().Add(4 * time.Second)
	last, stableSince := -1, time.Now()
	for time.Now().Before(deadline) {
		n := poolLen()
		if n != last {
			last, stableSince = n, time.Now()
		}
		if n > 0 && time.Since(stableSince) > 200*time.Millisecond {
			break
		}
		time.Sleep(10 * time.Millisecond)
	}
	if poolLen() == 0 {
		t.Fatal("no candidate was pooled")
	}

	offer, err := pc.CreateOffer(nil)
	if err != nil {
		t.Fatal(err)
	}
	if g.State() != ICEGathererStateGathering {
		return false, 0
	}
	if err = pc.SetLocalDescription(offer); err != nil {
		t.Fatal(err)
	}

	select {
	case <-nilSeen:
	case <-time.After(20 * time.Second):
		t.Fatal("OnICECandidate(nil) was never reported")
	}
	// Give a wrongly repeated marker the time to show up.
	time.Sleep(300 * time.Millisecond)

	mu.Lock()
	defer mu.Unlock()

	// Completion must have happened while the flush was being held, otherwise the schedule
	// under test was not produced.
	if afterNil > 0 {
		t.Errorf("%d candidate(s) were reported after the nil end-of-gathering marker (candidates seen: %d)", afterNil, candSeen)
	}

	return true, nilCount
}
