// SPDX-FileCopyrightText: 2026 The Pion community <https://pion.ly>
// SPDX-License-Identifier: MIT

package h264reader

import (
	"bytes"
	"errors"
	"io"
	"testing"
)

// With SEI inclusion off (the default) no SEI unit may be returned, wherever it occurs in the stream.
// The last unit of the stream is flushed at EOF without being tested against the filter.
func TestC34TrailingSEIIsSkipped(t *testing.T) {
	stream := []byte{
		0x00, 0x00, 0x00, 0x01, 0x67, 0x42, 0x00, 0x1f, // SPS
		0x00, 0x00, 0x01, 0x06, 0x05, 0x01, 0x80, // SEI, last unit of the stream
	}
	r, err := NewReader(bytes.NewReader(stream))
	if err != nil {
		t.Fatal(err)
	}
	var types []NalUnitType
	for {
		nal, err := r.NextNAL()
		if errors.Is(err, io.EOF) {
			break
		}
		if err != nil {
			t.Fatal(err)
		}
		types = append(types, nal.UnitType)
	}
	for _, ty := range types {
		if ty == NalUnitTypeSEI {
			t.Fatalf("SEI returned although SEI inclusion is off: units %v", types)
		}
	}
	if len(types) != 1 || types[0] != NalUnitTypeSPS {
		t.Fatalf("want exactly the SPS, got %v", types)
	}
}

// A stream that consists of a single SEI yields no unit at all.
func TestC34OnlySEIStream(t *testing.T) {
	r, err := NewReader(bytes.NewReader([]byte{0x00, 0x00, 0x01, 0x06, 0x05, 0x01, 0x80}))
	if err != nil {
		t.Fatal(err)
	}
	nal, err := r.NextNAL()
	if !errors.Is(err, io.EOF) || nal != nil {
		t.Fatalf("want (nil, io.EOF), got (%v, %v)", nal, err)
	}
}
