// SPDX-FileCopyrightText: 2026 The Pion community <https://pion.ly>
// SPDX-License-Identifier: MIT

package h265reader

import (
	"bytes"
	"errors"
	"io"
	"testing"
)

// With SEI inclusion off (the default) no prefix/suffix SEI unit may be returned, wherever it occurs.
func TestC34TrailingSEIIsSkipped(t *testing.T) {
	for _, sei := range []NalUnitType{NalUnitTypePrefixSei, NalUnitTypeSuffixSei} {
		stream := []byte{
			0x00, 0x00, 0x00, 0x01, 0x40, 0x01, 0x0c, 0x01, // VPS (type 32)
			0x00, 0x00, 0x01, byte(sei) << 1, 0x01, 0x05, 0x80, // SEI, last unit of the stream
		}
		r, err := NewReader(bytes.NewReader(stream))
		if err != nil {
			t.Fatal(err)
		}
		var types []NalUnitType
		for {
			nal, err := r.NextNAL()
			if errors.Is(err, io.EOF) {
				break
			}
			if err != nil {
				t.Fatal(err)
			}
			types = append(types, nal.NalUnitType)
		}
		if len(types) != 1 || types[0] != NalUnitTypeVps {
			t.Fatalf("SEI type %d: want exactly the VPS, got %v", sei, types)
		}
	}
}
