package triage

// Reproducers for C07 (not part of any check).
//
// R1: an offered m-section whose media type pion does not know (m=text), or an
//     audio section without a direction attribute... is skipped by the
//     `continue` in generateMatchedSDP: the answer has fewer m-sections.
// R4: a section the answerer has no codec for is rejected in place (port 0) but
//     the rejected section carries no a=mid.
//
// Run: copy into a scratch module (see findings/README.md) and `go test -run TestC07 -v .`

import (
	"strings"
	"testing"

	"github.com/pion/webrtc/v4"
)

const c07Head = `v=0
o=- 1 1 IN IP4 0.0.0.0
s=-
t=0 0
a=fingerprint:sha-256 AA:AA:AA:AA:AA:AA:AA:AA:AA:AA:AA:AA:AA:AA:AA:AA:AA:AA:AA:AA:AA:AA:AA:AA:AA:AA:AA:AA:AA:AA:AA:AA
`
const c07Audio = `m=audio 9 UDP/TLS/RTP/SAVPF 111
c=IN IP4 0.0.0.0
a=mid:0
a=ice-ufrag:abcd
a=ice-pwd:abcdefghijklmnopqrstuvwx
a=setup:actpass
a=sendrecv
a=rtcp-mux
a=rtpmap:111 opus/48000/2
`
const c07Text = `m=text 9 UDP/TLS/RTP/SAVPF 98
c=IN IP4 0.0.0.0
a=mid:1
a=ice-ufrag:abcd
a=ice-pwd:abcdefghijklmnopqrstuvwx
a=setup:actpass
a=sendrecv
a=rtcp-mux
a=rtpmap:98 t140/1000
`
const c07Video = `m=video 9 UDP/TLS/RTP/SAVPF 96
c=IN IP4 0.0.0.0
a=mid:2
a=ice-ufrag:abcd
a=ice-pwd:abcdefghijklmnopqrstuvwx
a=setup:actpass
a=sendrecv
a=rtcp-mux
a=rtpmap:96 VP8/90000
`

type c07Section struct {
	mline string
	mid   string
}

func c07Sections(sdp string) []c07Section {
	var out []c07Section
	for _, l := range strings.Split(strings.ReplaceAll(sdp, "\r\n", "\n"), "\n") {
		switch {
		case strings.HasPrefix(l, "m="):
			out = append(out, c07Section{mline: l})
		case strings.HasPrefix(l, "a=mid:") && len(out) > 0:
			out[len(out)-1].mid = strings.TrimPrefix(l, "a=mid:")
		}
	}
	return out
}

func c07Answer(t *testing.T, api *webrtc.API, offer string) []c07Section {
	t.Helper()
	pc, err := api.NewPeerConnection(webrtc.Configuration{})
	if err != nil {
		t.Fatal(err)
	}
	defer pc.Close()
	if err = pc.SetRemoteDescription(webrtc.SessionDescription{Type: webrtc.SDPTypeOffer, SDP: offer}); err != nil {
		t.Fatal(err)
	}
	answer, err := pc.CreateAnswer(nil)
	if err != nil {
		t.Fatal(err)
	}
	return c07Sections(answer.SDP)
}

// R1: m=text between audio and video is dropped from the answer.
func TestC07UnknownMediaTypeDropped(t *testing.T) {
	offer := c07Head + "a=group:BUNDLE 0 1 2\n" + c07Audio + c07Text + c07Video
	got := c07Answer(t, webrtc.NewAPI(), offer)
	want := c07Sections(offer)
	t.Logf("offer sections:  %v", want)
	t.Logf("answer sections: %v", got)
	if len(got) != len(want) {
		t.Errorf("offer has %d m-sections, answer has %d (C07: offered sections must be rejected in place, not dropped)", len(want), len(got))
	}
}

// R1: an audio section without any direction attribute is dropped as well.
func TestC07MissingDirectionDropped(t *testing.T) {
	offer := c07Head + "a=group:BUNDLE 0 2\n" + strings.Replace(c07Audio, "a=sendrecv\n", "", 1) + c07Video
	got := c07Answer(t, webrtc.NewAPI(), offer)
	want := c07Sections(offer)
	t.Logf("offer sections:  %v", want)
	t.Logf("answer sections: %v", got)
	if len(got) != len(want) {
		t.Errorf("offer has %d m-sections, answer has %d", len(want), len(got))
	}
}

// R4: answerer without any video codec: the video section is rejected (port 0) without a=mid.
func TestC07RejectedSectionHasNoMid(t *testing.T) {
	me := &webrtc.MediaEngine{}
	if err := me.RegisterCodec(webrtc.RTPCodecParameters{
		RTPCodecCapability: webrtc.RTPCodecCapability{MimeType: webrtc.MimeTypeOpus, ClockRate: 48000, Channels: 2},
		PayloadType:        111,
	}, webrtc.RTPCodecTypeAudio); err != nil {
		t.Fatal(err)
	}
	offer := c07Head + "a=group:BUNDLE 0 2\n" + c07Audio + c07Video
	got := c07Answer(t, webrtc.NewAPI(webrtc.WithMediaEngine(me)), offer)
	want := c07Sections(offer)
	t.Logf("offer sections:  %v", want)
	t.Logf("answer sections: %v", got)
	if len(got) != len(want) {
		t.Fatalf("offer has %d m-sections, answer has %d", len(want), len(got))
	}
	for i := range want {
		if got[i].mid != want[i].mid {
			t.Errorf("section %d: offer mid %q, answer mid %q (%s) (C07: each answer section has the same mid as its offer section)", i, want[i].mid, got[i].mid, got[i].mline)
		}
	}
}
