// SPDX-License-Identifier: MIT

package webrtc

import (
	"encoding/json"
	"testing"

	"github.com/stretchr/testify/assert"
)

// C38: an ICEServer with a nil URL list must survive its own JSON encoding.
func TestFindingC38ICEServerNilURLsRoundTrip(t *testing.T) {
	in := ICEServer{Username: "u", Credential: "p", CredentialType: ICECredentialTypePassword}
	b, err := json.Marshal(in)
	assert.NoError(t, err)
	var out ICEServer
	assert.NoError(t, json.Unmarshal(b, &out), "encoding was %s", b)
	assert.Equal(t, in, out)
}
