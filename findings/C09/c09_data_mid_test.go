package triage

// Reproducers for C09.R4 / C06.R1 at the generateUnmatchedSDP site (not part of any check).
// The application section's mid is strconv.Itoa(len(mediaSections)), recomputed on every offer.
//
// Run together with findings/C06/c06_data_mid_test.go (uses c06Mids / c06Offer) in a scratch
// module (see findings/README.md): `go test -run 'TestC09|TestC06' -v .`

import (
	"strings"
	"testing"

	"github.com/pion/webrtc/v4"
)

func c09MidOf(sdp, media string) string {
	cur := ""
	for _, l := range strings.Split(strings.ReplaceAll(sdp, "\r\n", "\n"), "\n") {
		if strings.HasPrefix(l, "m=") {
			cur = strings.Fields(strings.TrimPrefix(l, "m="))[0]
		}
		if strings.HasPrefix(l, "a=mid:") && cur == media {
			return strings.TrimPrefix(l, "a=mid:")
		}
	}
	return ""
}

// Two successive initial offers (no remote description yet): adding a transceiver between them
// moves the application section to another mid and gives its old mid to the new transceiver.
func TestC09DataMidNotStableAcrossOffers(t *testing.T) {
	pc, err := webrtc.NewPeerConnection(webrtc.Configuration{})
	if err != nil {
		t.Fatal(err)
	}
	defer pc.Close()
	if _, err = pc.AddTransceiverFromKind(webrtc.RTPCodecTypeAudio); err != nil {
		t.Fatal(err)
	}
	if _, err = pc.CreateDataChannel("x", nil); err != nil {
		t.Fatal(err)
	}
	o1, err := pc.CreateOffer(nil)
	if err != nil {
		t.Fatal(err)
	}
	if _, err = pc.AddTransceiverFromKind(webrtc.RTPCodecTypeVideo); err != nil {
		t.Fatal(err)
	}
	o2, err := pc.CreateOffer(nil)
	if err != nil {
		t.Fatal(err)
	}
	d1, d2, v2 := c09MidOf(o1.SDP, "application"), c09MidOf(o2.SDP, "application"), c09MidOf(o2.SDP, "video")
	t.Logf("offer 1 mids %v (application=%s); offer 2 mids %v (application=%s, video=%s)", c06Mids(o1.SDP), d1, c06Mids(o2.SDP), d2, v2)
	if d1 != d2 {
		t.Errorf("the application section's mid changed from %q to %q between two offers (C09: a section keeps its mid)", d1, d2)
	}
	if v2 == d1 {
		t.Errorf("the new video transceiver reuses mid %q, which the earlier offer gave to the application section (C09: new sections never reuse an earlier mid)", v2)
	}
}

// CreateOffer while a remote offer with mids 1,2 is pending (pion does not reject the call):
// generateUnmatchedSDP gives the application section mid "2" as well.
func TestC06DataMidCollidesUnmatched(t *testing.T) {
	pc, err := webrtc.NewPeerConnection(webrtc.Configuration{})
	if err != nil {
		t.Fatal(err)
	}
	defer pc.Close()
	if err = pc.SetRemoteDescription(webrtc.SessionDescription{Type: webrtc.SDPTypeOffer, SDP: c06Offer}); err != nil {
		t.Fatal(err)
	}
	if _, err = pc.CreateDataChannel("x", nil); err != nil {
		t.Fatal(err)
	}
	offer, err := pc.CreateOffer(nil)
	if err != nil {
		t.Fatal(err)
	}
	mids := c06Mids(offer.SDP)
	t.Logf("state %s, offer mids: %v", pc.SignalingState(), mids)
	seen := map[string]bool{}
	for _, m := range mids {
		if seen[m] {
			t.Errorf("mid %q appears on two m-sections of one offer", m)
		}
		seen[m] = true
	}
}
